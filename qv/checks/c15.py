"""C15 - observers fire on schedule and splitting a run does not change it.

For every sequence of run-call lengths from {0,1,2,3} of length <= 3 and every assignment of
{run, srun, irun fully iterated} to the calls, on Canonical, GrandCanonical and ForceBias
simulations with recording observers at intervals {1,2,3,-1,-2,-4}, a logger and a trajectory:
(a) differential oracle - atoms, step counter, log/trajectory text and observer call logs equal
those of one ``run(sum)``; (b) reference model of the observer schedule and of the header;
(c) the simulation rebuilt from its dictionary between two calls: each call still performs
exactly the requested number of steps; (d) every observer attached again under its own name
between two calls: nothing changes.
"""

from __future__ import annotations

import io
import itertools
import warnings

import numpy as np
from ase.atoms import Atoms
from ase.constraints import FixCom

from qv import calcs
from qv.core import js
from qv.runner import Acc, Report, pmap
from qv.snapshot import atoms_diff, atoms_snapshot

PID = "C15"
INTERVALS = (1, 2, 3, -1, -2, -4)


def _observer_class():
    from quansino.io.core import Observer

    class Rec(Observer):
        __slots__ = ("calls", "sim")

        def __init__(self, interval, sim):
            super().__init__(interval)
            self.calls, self.sim = [], sim

        def __call__(self):
            self.calls.append(int(self.sim.step_count))

        def attach_simulation(self, *a, **k):
            pass

        def close(self):
            pass

    return Rec


def build(driver, seed, logger=True, default_interval=1, late_logger=False):
    from quansino.mc.canonical import Canonical
    from quansino.mc.fbmc import ForceBias
    from quansino.mc.gcmc import GrandCanonical
    from quansino.moves.displacement import DisplacementMove
    from quansino.moves.exchange import ExchangeMove
    from quansino.operations.displacement import Ball

    log, traj = io.StringIO(), io.StringIO()
    lkw = dict(trajectory=traj, logging_interval=default_interval)
    if logger and not late_logger:
        lkw["logfile"] = log
    pos = np.array([[1.0, 1.2, 0.9], [3.1, 2.2, 4.0], [4.4, 4.9, 2.1]])
    atoms = Atoms("Ar3", positions=pos, cell=[6.0] * 3, pbc=True)
    with warnings.catch_warnings():
        warnings.simplefilter("ignore")
        if driver == "Canonical":
            atoms.calc = calcs.PairSoft(centre=(3, 3, 3))
            sim = Canonical(atoms, temperature=500.0, max_cycles=2, seed=seed, **lkw)
            sim.add_move(DisplacementMove(np.arange(3), Ball(0.3)), name="d")
        elif driver == "GrandCanonical":
            atoms.calc = calcs.Zero()
            sim = GrandCanonical(atoms, exchange_atoms=Atoms("Ar"), temperature=800.0, chemical_potential=-0.3, number_of_exchange_particles=3, max_cycles=2, seed=seed, **lkw)
            sim.add_move(ExchangeMove(np.arange(3)), name="e")
            sim.add_move(DisplacementMove(np.arange(3), Ball(0.3)), name="d")
        elif driver == "ForceBias":
            atoms.calc = calcs.PairSoft(centre=(3, 3, 3))
            sim = ForceBias(atoms, delta=0.1, temperature=500.0, seed=seed, **lkw)
        else:
            raise ValueError(driver)
    Rec = _observer_class()
    recs = {}
    for iv in INTERVALS:
        r = Rec(iv, sim)
        sim.file_manager.attach_observer(f"rec{iv}", r)
        recs[iv] = r
    return sim, atoms, log, traj, recs


def do_call(sim, how, n):
    """Returns the number of steps the call reports having performed (None if not countable)."""
    if how == "run":
        sim.run(n)
        return None
    if how == "irun":
        k = 0
        for step in sim.irun(n):
            if hasattr(step, "__next__"):
                for _ in step:
                    pass
            k += 1
        return k
    if how == "srun":
        k = 0
        for _ in sim.srun(n):
            k += 1
        return k
    raise ValueError(how)


def observe(sim, atoms, log, traj, recs):
    return {
        "atoms": atoms_snapshot(atoms),
        "step_count": int(sim.step_count),
        "log": log.getvalue(),
        "traj": traj.getvalue(),
        "calls": {iv: list(r.calls) for iv, r in recs.items()},
    }


def model_calls(iv, total):
    if iv > 0:
        return [s for s in range(0, total + 1) if s % iv == 0]
    return [-iv] if -iv <= total else []


def task(arg):
    driver, seed = arg["driver"], arg["seed"]
    with_logger, div = arg.get("logger", True), arg.get("default_interval", 1)
    late = arg.get("late_logger", False)

    def attach_logger(sim, log):
        """The user assigns the log after the first (possibly zero-length) run call."""
        sim.logging_interval = div
        sim.default_logger = log
        sim.default_logger.add_mc_fields(sim)
    hows = ["run", "irun"] + ([] if driver == "ForceBias" else ["srun"])
    counters = {"evaluations": 0, "nontrivial": 0, "executions": 0}
    viol, seen = [], {}
    outcomes = set()

    def add(sig, what, rep):
        seen[sig] = seen.get(sig, 0) + 1
        if seen[sig] <= 2:
            viol.append({"signature": sig, "what": what, "replay": rep})

    refs = {}

    def reference(total):
        if total not in refs:
            sim, atoms, log, traj, recs = build(driver, seed, with_logger, div, late)
            if late:
                attach_logger(sim, log)
            sim.run(total)
            refs[total] = observe(sim, atoms, log, traj, recs)
            sim.close()
        return refs[total]

    for L in arg["lengths"]:
        for seq in itertools.product((0, 1, 2, 3), repeat=L):
            total = sum(seq)
            ref = reference(total)
            for assign in itertools.product(hows, repeat=L):
                if arg.get("only") and [list(seq), list(assign)] != arg["only"]:
                    continue
                counters["evaluations"] += 1
                counters["executions"] += 1
                rep = {"check": PID, "func": "task", "arg": {**arg, "lengths": [L], "only": [list(seq), list(assign)]}}
                where = f"{driver}: calls {list(zip(assign, seq))} default observers: logger={with_logger} interval={div}"
                sim, atoms, log, traj, recs = build(driver, seed, with_logger, div, late)
                zero_first = seq[0] == 0 and total > 0
                kind = "zero-length-call-first" if zero_first else "zero-length-call" if 0 in seq else "split" if L > 1 else "single"
                olds = []
                try:
                    bad_count = None
                    for ci, (how, n) in enumerate(zip(assign, seq)):
                        if late and ci == 1:
                            attach_logger(sim, log)
                        if arg.get("reattach") and ci == 1:
                            # schedule-neutral housekeeping between two calls: every observer is attached
                            # again under its own name (the same objects)
                            if sim.default_logger is not None:
                                sim.default_logger = sim.default_logger
                            for iv, r in recs.items():
                                sim.file_manager.attach_observer(f"rec{iv}", r)
                        if arg.get("replace") and ci == 1:
                            # every recording observer is replaced under its own name by a NEW object with
                            # the same interval (it inherits a copy of the calls recorded so far): from here
                            # on the new object is the attached one and must be called on schedule
                            for iv, r in list(recs.items()):
                                nr = type(r)(iv, sim)
                                nr.calls = list(r.calls)
                                sim.file_manager.attach_observer(f"rec{iv}", nr)
                                recs[iv] = nr
                        if arg.get("restored") and ci == 1:
                            # the documented restart: a new object from the dictionary, calculator re-attached
                            calc = sim.atoms.calc
                            sim2 = type(sim).from_dict(sim.to_dict())
                            sim2.atoms.calc = type(calc)(centre=(3, 3, 3)) if type(calc).__name__ == "PairSoft" else type(calc)()
                            olds.append(sim)
                            sim = sim2
                        before = sim.step_count
                        k = do_call(sim, how, n)
                        if sim.step_count - before != n or (k is not None and k != n):
                            bad_count = (how, n, sim.step_count - before, k)
                            break
                    got = observe(sim, atoms, log, traj, recs)
                except Exception as e:  # noqa: BLE001
                    add(f"C15/{driver}/{kind}/exception:{type(e).__name__}", f"{e}; {where}", rep)
                    sim.close()
                    for o in olds:
                        o.close()
                    continue
                sim.close()
                for o in olds:
                    o.close()
                if L > 1 or 0 in seq:
                    counters["nontrivial"] += 1
                outcomes.add((kind, tuple(sorted(set(assign)))))
                if bad_count:
                    add(f"C15/{driver}/{bad_count[0]}/wrong-number-of-steps" + ("-after-rebuilding-from-dictionary" if arg.get("restored") else ""), f"{bad_count[0]}({bad_count[1]}) advanced the counter by {bad_count[2]} and yielded {bad_count[3]} steps; {where}", rep)
                    continue
                if arg.get("restored"):
                    continue  # only the number of steps each call performs is judged across a rebuild (the rest is C07's statement)
                # (b) reference model
                model_bad = None
                for iv in INTERVALS:
                    if got["calls"][iv] != model_calls(iv, total):
                        model_bad = (iv, got["calls"][iv], model_calls(iv, total))
                        break
                lines = got["log"].splitlines()
                headers = [i for i, l in enumerate(lines) if "Step" in l and "Epot" in l]
                if model_bad:
                    iv = model_bad[0]
                    add(f"C15/{driver}/{kind}/observer-schedule/{'positive' if iv > 0 else 'negative'}-interval", f"observer with interval {iv} called at steps {model_bad[1]}, model says {model_bad[2]}; {where}", rep)
                    continue
                ndef = len(model_calls(div, total))
                late_skip = late  # a log attached after the step-0 call gets no header by design: only the other observers are judged
                if late_skip:
                    pass
                elif with_logger and headers != [0]:
                    add(f"C15/{driver}/{kind}/header-not-once-first", f"header lines at {headers} of {len(lines)} log lines; {where}", rep)
                    continue
                if not late_skip and with_logger and len(lines) != 1 + ndef:
                    add(f"C15/{driver}/{kind}/default-logger-schedule", f"{len(lines) - 1} log rows for {total} steps, model says {ndef} (logging_interval {div}); {where}", rep)
                    continue
                nframes = sum(1 for l in got["traj"].splitlines() if l.startswith("Lattice") or "Properties=" in l)
                if nframes != ndef:
                    add(f"C15/{driver}/{kind}/default-trajectory-schedule", f"{nframes} trajectory frames for {total} steps, model says {ndef} (logging_interval {div}); {where}", rep)
                    continue
                # (a) differential oracle against run(total)
                diffs = []
                d = atoms_diff(ref["atoms"], got["atoms"])
                if d:
                    diffs.append("atoms:" + ",".join(d))
                for k in ("step_count", "log", "traj", "calls"):
                    if k == "log" and late_skip:
                        continue
                    if got[k] != ref[k]:
                        diffs.append(k)
                if diffs:
                    entry = "+".join(sorted(set(assign)))
                    add(f"C15/{driver}/{kind}/differs-from-single-run/{'+'.join(x.split(':')[0] for x in diffs)}", f"differs from run({total}) in {diffs}; entry points {entry}; {where}", rep)
    return {"counters": counters, "violations": viol, "sets": {"outcomes": list(outcomes)}, "samples": [{"driver": driver, "calls": [["run", 2], ["srun", 0], ["irun", 3]], "reference": "run(5)", "observer_calls_model": {str(iv): model_calls(iv, 5) for iv in INTERVALS}}]}


def run(tier, seed):
    rep = Report("model_checking")
    acc = Acc()
    seeds = [7] if tier == "quick" else [7, 1 + seed % 1000, 2**32 + 5]
    args = []
    for drv in ("Canonical", "GrandCanonical", "ForceBias"):
        for s in seeds:
            for L in (1, 2, 3):
                args.append({"driver": drv, "seed": s, "lengths": [L]})
        # default observers without a logger / with other cadences (also negative: one-shot)
        args.append({"driver": drv, "seed": seeds[0], "lengths": [2], "late_logger": True})
        args.append({"driver": drv, "seed": seeds[0], "lengths": [2], "reattach": True})
        args.append({"driver": drv, "seed": seeds[0], "lengths": [2], "replace": True})
        if drv != "ForceBias":  # the force-bias drivers offer no from_dict
            args.append({"driver": drv, "seed": seeds[0], "lengths": [2], "restored": True})
            if tier == "thorough":
                args.append({"driver": drv, "seed": seeds[0], "lengths": [3], "restored": True})
        for lg, div in ((False, 1), (True, 2), (True, -2), (False, -1)):
            for L in (1, 2) if tier == "quick" else (1, 2, 3):
                args.append({"driver": drv, "seed": seeds[0], "lengths": [L], "logger": lg, "default_interval": div})
    for r in pmap(__name__, "task", args):
        acc.add(r)
    rep.violations = acc.violations
    rep.coverage = {
        "states": acc.n("executions"),
        "transitions": acc.n("executions") * 3,
        "traces_validated_against_impl": acc.n("executions"),
        "executions": acc.n("executions"),
        "split_or_zero_length_histories": acc.n("nontrivial"),
        "distinct_outcomes": len(acc.sets.get("outcomes", ())),
        "default_observer_variants": "logger on/off x logging_interval in {1,2,-2,-1}",
        "bound": "all sequences of <= 3 run calls with lengths in {0,1,2,3}, every assignment of run/srun/irun (run/irun for ForceBias); 6 recording observers (intervals 1,2,3,-1,-2,-4) + logger + trajectory attached at once; real PCG64 with fixed seeds",
        "exhaustive": True,
        "samples": acc.samples[:2],
    }
    rep.assumptions = ["observers are independent of each other, so all intervals are attached simultaneously", "the reference for the differential oracle is a single run(sum) of the same configuration and seed"]
    return rep


def replay(data):
    res = task(data["arg"])
    return {"signatures": sorted({v["signature"] for v in res["violations"]})}
