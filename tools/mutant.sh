#!/bin/bash
# tools/mutant.sh confirm <outdir> <i> <name>   -> scratch worktree: demo passes clean, fails mutated, full test-suite passes mutated
# tools/mutant.sh detect <diff> <name> C03 [C04 ...] -> scratch worktree with the diff; run the quick checks against it
set -u
cmd=$1; shift
case $cmd in
confirm)
  out=$1; i=$2; name=$3
  wt=/tmp/wt/confirm-$name
  git -C /repo worktree add -q --detach $wt HEAD || exit 2
  res=/tmp/wt/confirm-$name.result
  {
    cd $wt
    echo "== demo on clean HEAD"; PYTHONPATH=$wt/src timeout 300 /venv/bin/python $out/demo$i.py > /tmp/wt/confirm-$name.clean.log 2>&1; echo "clean_exit=$?"
    if git apply $out/mut$i.diff; then echo "apply=ok"; else echo "apply=FAILED"; fi
    echo "== demo on mutated tree"; PYTHONPATH=$wt/src timeout 300 /venv/bin/python $out/demo$i.py > /tmp/wt/confirm-$name.mut.log 2>&1; echo "mutated_exit=$?"
    echo "== tests on mutated tree"; PYTHONPATH=$wt/src /venv/bin/python -m pytest -q -p no:cacheprovider --timeout=900 tests > /tmp/wt/confirm-$name.tests.log 2>&1; echo "tests_exit=$?"; tail -3 /tmp/wt/confirm-$name.tests.log
  } > $res 2>&1
  cd /; git -C /repo worktree remove --force $wt
  cat $res
  ;;
detect)
  diff=$1; name=$2; shift 2
  wt=/tmp/wt/detect-$name
  git -C /repo worktree add -q --detach $wt HEAD || exit 2
  ( cd $wt && git apply $diff ) || { echo "APPLY FAILED"; git -C /repo worktree remove --force $wt; exit 2; }
  for c in "$@"; do
    QV_OUT_DIR=/tmp/wt/out-$name QV_REPO_SRC=$wt/src /verif/bin/check $c quick 2>&1 | grep -E "VIOLATION|HARNESS|violations=" | cut -c1-260 | head -8
  done
  git -C /repo worktree remove --force $wt; rm -rf /tmp/wt/out-$name
  ;;
esac
