"""C01 - ensembles reproduce exact averages of solvable systems.

Explicit-state model checking of the REAL one-trial kernel of ``MonteCarlo.step()`` on lattice
versions of the four solvable systems (harmonic particles, rigid dipole in a field, ideal gas at
constant pressure, ideal gas at constant chemical potential).  From every state reached by
breadth-first search every generator answer of a coarse, inversion-closed menu is enumerated
(exact branch probabilities), giving the exact transition kernel of the implementation:

 1. Metropolis-Hastings conformance of every transition: the captured acceptance threshold equals
    min(1, pi(y)/pi(x)) of the ensemble's analytic target, computed from the harness potential;
 2. state update: accepted -> the configuration shown to the criteria, else the old state, bitwise;
 3. Markov property: the kernel of a trial that follows 1 trial in a live simulation equals the
    kernel from a freshly built simulation at the same state;
 4. if the menu is closed under inversion of the proposals (checked, not assumed): detailed balance
    pi(x)P(x->y) = pi(y)P(y->x) on every edge between expanded states, one strongly connected
    component, a self-loop;
 5. closed finite chains: the stationary vector of the enumerated matrix equals the target.
L2: Haar-uniformity of inserted orientations on fine product grids.  L3: the Hamiltonian map
(Verlet then momentum flip) preserves phase-space volume.
"""

from __future__ import annotations

import itertools
import math

import networkx as nx
import numpy as np
from ase import units

from qv.core import Chooser, Stats, explore, js
from qv.drive import execute
from qv.rngx import Policy, QuantileRNG
from qv.runner import Acc, Report, pmap

PID = "C01"
kB = units.kB
COARSE = dict(uniform_q=(1 / 6, 1 / 2, 5 / 6), angular_q=(0.0, 0.25, 0.5, 0.75), normal_z=(-1.0, 1.0), product_limit=3)


def lam_cubed(mass_amu, T):
    m = mass_amu * units._amu
    kt = units.kB * T * units._e
    return (units._hplanck / math.sqrt(2 * math.pi * m * kt) * 1e10) ** 3


def arr(snap_entry):
    dtype, shape, raw = snap_entry
    return np.frombuffer(raw, dtype=dtype).reshape(shape).copy()


# ---------------------------------------------------------------------------------- harnesses
class Harness:
    name = "?"
    closed = False
    tol = 1e-9
    depth = 2
    policy = COARSE
    expand_limit = None  # at most this many states expanded per BFS level
    edgewise = True  # detailed balance / connectivity layer applies
    warm = False  # criteria/operation objects have already served another simulation at other conditions

    def prepare(self, sysm, state):
        """Put the system into ``state``.  With ``warm`` the criteria and operation objects of
        the explored simulation are the ones that have already served ANOTHER simulation of the
        same table at another temperature (and pressure / chemical potential) for three steps -
        the user shares component instances between simulations: anything they cached during
        that earlier use must not leak into the kernel."""
        if self.warm:
            from qv.systems import build, flatten_moves

            spec2 = dict(self.spec)
            spec2["T"] = 3.7 * self.spec.get("T", 300.0)
            if "P" in spec2:
                spec2["P"] = 2.5 * spec2["P"] + 0.001
            if "mu" in spec2:
                spec2["mu"] = spec2["mu"] + 0.05
            spec2["seed"] = 20260927
            donor = build(spec2)
            self.set_state(donor, self.state0)
            donor.mc.run(3)
            for name, st in sysm.mc.moves.items():
                dst = donor.mc.moves[name]
                st.criteria = dst.criteria
                for leaf, dleaf in zip(flatten_moves(st.move), flatten_moves(dst.move)):
                    if hasattr(leaf, "operation"):
                        leaf.operation = dleaf.operation
            donor.close()
        self.set_state(sysm, state)

    def key(self, s):
        raise NotImplementedError

    def inside(self, s):
        return True


class HarmonicH(Harness):
    """N harmonically bound particles, Canonical + displacement move with a given operation."""

    def __init__(self, n, op, T=300.0, step=0.3, depth=2, table=None):
        self.n, self.op, self.T, self.depth = n, op, T, depth
        self.name = f"harmonic/N{n}/{op}"
        self.k = 0.6
        self.centre = np.array([3.0, 3.0, 3.0])
        self.spec = dict(ens="Canonical", atoms=f"A{n}", table=table or [["d", f"D_{op}"]], T=T, calc="harmonic")
        self.state0 = np.array([[3.0, 3.0, 3.0], [3.2, 2.8, 3.1]])[:n]

    def calc(self):
        from qv import calcs

        return calcs.Harmonic(k=self.k, centre=self.centre)

    def set_state(self, sysm, s):
        sysm.atoms.positions = np.array(s, dtype=float)
        sysm.atoms.calc = self.calc()

    def state_of(self, pos, cell, n):
        return pos

    def key(self, s):
        return tuple(np.round(np.asarray(s).ravel(), 9) + 0.0)

    def log_pi(self, s):
        d = np.asarray(s) - self.centre
        return -0.5 * self.k * float((d * d).sum()) / (kB * self.T)

    def log_ratio(self, x, y, ac):
        return self.log_pi(y) - self.log_pi(x)

    def inside(self, s):
        return np.abs(np.asarray(s) - self.centre).max() < 1.5


class DipoleH(Harness):
    """Rigid dipole (charges +q, -q, distance d) in a uniform field along z; rotation moves."""

    closed = True
    # polar-angle answers {-1, 0, just below 1} for a draw of cos(theta): together with quarter
    # turns for the other two Euler angles the menu generates the octahedral rotation group, so the
    # chain on bond directions is finite and closed (checked by the symmetric-proposal precondition)
    policy = {**COARSE, "uniform_q": (0.0, 0.5, 1.0 - 2.0**-53)}

    def __init__(self, x=2.0, T=300.0):
        self.x, self.T = x, T
        self.name = f"dipole/x{x}"
        self.d = 1.0
        self.q = 1.0
        self.field = x * kB * T / (self.q * self.d)
        self.spec = dict(ens="Canonical", atoms="A2", table=[["r", "D_rot"]], T=T, labels=[0, 0], calc="zero")
        c = np.array([3.0, 3.0, 3.0])
        self.com = c
        self.state0 = np.array([c + [0, 0, 0.5], c - [0, 0, 0.5]])

    def calc(self):
        from qv import calcs

        return calcs.Dipole([self.q, -self.q], self.field)

    def set_state(self, sysm, s):
        sysm.atoms.positions = np.array(s, dtype=float)
        sysm.atoms.calc = self.calc()

    def state_of(self, pos, cell, n):
        return pos

    def key(self, s):
        b = np.asarray(s)[0] - np.asarray(s)[1]
        return tuple(np.round(b, 7) + 0.0)

    def log_pi(self, s):
        s = np.asarray(s)
        return self.field * self.q * float(s[0, 2] - s[1, 2]) / (kB * self.T)

    def log_ratio(self, x, y, ac):
        return self.log_pi(y) - self.log_pi(x)


class NPTH(Harness):
    """Ideal gas at constant pressure: isotropic cell moves on a log-volume lattice."""

    def __init__(self, n, T=300.0, P=0.004, mv=0.06, kmax=4, with_disp=False):
        self.n, self.T, self.P, self.mv, self.kmax = n, T, P, mv, kmax
        self.depth = kmax
        self.name = f"npt/N{n}" + ("/with-displacement" if with_disp else "")
        table = [["c", "C_iso"]] + ([["d", "D_box"]] if with_disp else [])
        self.spec = dict(ens="Isobaric", atoms=f"A{n}", table=table, T=T, P=P, calc="zero")
        self.L0 = 6.0
        self.state0 = self.L0
        self.frac = np.array([[0.2, 0.3, 0.4], [0.6, 0.1, 0.7], [0.8, 0.8, 0.2]])[:n]
        self.with_disp = with_disp
        if with_disp:  # the state is then (cell, positions): only the non-edge layers apply
            self.edgewise = False
            self.expand_limit = 12

    def set_state(self, sysm, s):
        from quansino.operations.cell import IsotropicDeformation

        L = float(s)
        sysm.atoms.set_cell(np.eye(3) * L, scale_atoms=False)
        sysm.atoms.positions = self.frac * L
        for mv in sysm.entries.values():
            if hasattr(mv, "scale_atoms"):
                mv.operation = IsotropicDeformation(self.mv)

    def state_of(self, pos, cell, n):
        return float(cell[0, 0])

    def key(self, s):
        return round(math.log(float(s) / self.L0) / (2 * self.mv / 3), 6) + 0.0

    def log_pi(self, s):
        V = float(s) ** 3
        return (self.n + 1) * math.log(V) - self.P * V / (kB * self.T)

    def log_ratio(self, x, y, ac):
        return self.log_pi(y) - self.log_pi(x)

    def inside(self, s):
        return abs(self.key(s)) < self.kmax + 0.5


class GCH(Harness):
    """Ideal gas at constant chemical potential: exchange moves with Translation on a lattice of
    insertion sites (states: multisets of sites)."""

    tol = 1e-7

    def __init__(self, nmax=2, T=300.0, lam=1.5, with_disp=False, sites=3, check=False):
        self.nmax, self.T, self.lam = nmax, T, lam
        if sites == 2:  # 8 insertion sites instead of 27
            self.policy = {**COARSE, "uniform_q": (0.25, 0.75)}
        self.name = f"muvt/atoms/{sites ** 3}-sites" + ("/with-displacement" if with_disp else "")
        self.L = 6.0
        self.V = self.L**3
        self.mass = 39.948
        # lambda = V exp(mu/kT) / Lambda^3
        self.mu = kB * T * math.log(lam * lam_cubed(self.mass, T) / self.V)
        table = [["e", "E_trans"]] + ([["d", "D_box"]] if with_disp else [])
        self.spec = dict(ens="GrandCanonical", atoms="A0", table=table, T=T, mu=self.mu, calc="zero")
        if check:
            # geometric checks answered by the explorer (max_attempts=2): vetoed attempts are
            # self-loops, so the edge-wise layer (which needs the lattice target) does not apply
            self.spec["check"] = True
            self.name += "/vetoed-attempts"
            self.edgewise = False
            self.expand_limit = 6
        self.state0 = np.zeros((0, 3))
        self.with_disp = with_disp
        if with_disp:
            # displaced particles leave the lattice of insertion sites: the edge-wise layer (which
            # needs the lattice target) does not apply; conformance, update and Markov layers do
            self.edgewise = False
            self.expand_limit = 12

    def set_state(self, sysm, s):
        from ase.atoms import Atoms

        s = np.asarray(s, dtype=float).reshape(-1, 3)
        atoms = sysm.atoms
        del atoms[list(range(len(atoms)))]
        if len(s):
            atoms.extend(Atoms("Ar" * len(s), positions=s))
        sysm.mc.number_of_exchange_particles = len(s)
        for m in sysm.leaves:
            m.set_labels(np.arange(len(s)))

    def state_of(self, pos, cell, n):
        return pos

    def key(self, s):
        s = np.asarray(s, dtype=float).reshape(-1, 3)
        return tuple(sorted(tuple(np.round(r, 7) + 0.0) for r in s))

    def log_pi(self, s, K):
        """Lattice target: independent Poisson occupation lam/K per site."""
        key = self.key(s)
        lp = 0.0
        for site in set(key):
            c = key.count(site)
            lp += c * math.log(self.lam / K) - math.lgamma(c + 1)
        return lp

    def log_ratio(self, x, y, ac):
        nx_, ny = len(np.asarray(x).reshape(-1, 3)), len(np.asarray(y).reshape(-1, 3))
        L3 = lam_cubed(self.mass, self.T)
        if ny == nx_ + 1:
            return math.log(self.V / (L3 * (nx_ + 1))) + self.mu / (kB * self.T)
        if ny == nx_ - 1:
            return math.log(L3 * nx_ / self.V) - self.mu / (kB * self.T)
        return 0.0

    def inside(self, s):
        return len(np.asarray(s).reshape(-1, 3)) <= self.nmax


class GCMolH(GCH):
    """Molecular exchange (diatomic, Translation + Rotation): conformance, update and Markov
    layers only (the orientation menu is not an equal-probability lattice; the orientation law is
    judged on fine grids, L2)."""

    edgewise = False
    expand_limit = 2

    def __init__(self, T=300.0, lam=1.2, sites=2):
        super().__init__(nmax=1, T=T, lam=lam, sites=sites)
        self.name = "muvt/diatomic"
        self.mass = 2 * 1.008
        self.mu = kB * T * math.log(lam * lam_cubed(self.mass, T) / self.V)
        self.spec = dict(ens="GrandCanonical", atoms="M1", table=[["e", "E_transrot"]], T=T, mu=self.mu, calc="zero", labels=[-1, 0, 0])
        self.state0 = np.zeros((0, 3))

    def set_state(self, sysm, s):
        from ase.atoms import Atoms

        s = np.asarray(s, dtype=float).reshape(-1, 3)
        atoms = sysm.atoms
        del atoms[list(range(len(atoms)))]
        atoms.extend(Atoms("Cu", positions=[[0.5, 0.5, 0.5]]))
        if len(s) > 1:
            atoms.extend(Atoms("H" * (len(s) - 1), positions=s[1:]))
        nmol = (len(atoms) - 1) // 2
        sysm.mc.number_of_exchange_particles = nmol
        for m in sysm.leaves:
            m.set_labels(np.array([-1] + [i // 2 for i in range(2 * nmol)]))

    def key(self, s):
        s = np.asarray(s, dtype=float).reshape(-1, 3)
        return tuple(tuple(np.round(r, 6) + 0.0) for r in s)

    def log_ratio(self, x, y, ac):
        nx_ = (len(np.asarray(x).reshape(-1, 3)) - 1) // 2 if len(np.asarray(x).reshape(-1, 3)) else 0
        ny = (len(np.asarray(y).reshape(-1, 3)) - 1) // 2
        L3 = lam_cubed(self.mass, self.T)
        if ny == nx_ + 1:
            return math.log(self.V / (L3 * (nx_ + 1))) + self.mu / (kB * self.T)
        if ny == nx_ - 1:
            return math.log(L3 * nx_ / self.V) - self.mu / (kB * self.T)
        return 0.0

    def inside(self, s):
        return len(np.asarray(s).reshape(-1, 3)) <= 3


# ---------------------------------------------------------------------------------- kernel enumeration
def enumerate_kernel(h: Harness, state, policy, depth=1):
    """All executions of ``depth`` trials from ``state``.  Returns list of dicts per execution:
    trials = [(weight, segkey, x, y, t, verdict, post, name)]."""

    def setup(sysm):
        h.prepare(sysm, state)

    out = []
    st = Stats()

    def run(ch):
        sysm, trials = execute(h.spec, ch, depth, policy, setup=setup)
        sysm.close()
        return trials

    for ch, trials in explore(run, stats=st):
        rec = []
        segs = ch.segments()
        for t in trials:
            if t.error is not None:
                rec.append({"error": t.error, "name": t.name})
                break
            w = 1.0
            for p in ch.trace:
                if p.seg == t.seg:
                    w *= p.weight
            x = h.state_of(arr(t.pre["arrays"]["positions"]), arr(t.pre["cell"]), t.pre["n"])
            post = h.state_of(arr(t.post["arrays"]["positions"]), arr(t.post["cell"]), t.post["n"])
            ac = t.at_criteria
            y = None if ac is None else h.state_of(ac["positions"], ac["cell"], ac["n"])
            rec.append({"w": w, "seg": segs.get(t.seg, ()), "x": x, "y": y, "t": t.thresholds[-1] if (ac is not None and t.thresholds) else None, "verdict": t.verdict, "post": post, "name": t.name, "ac": ac, "choices": ch.choices})
        out.append(rec)
    return out, st


def explore_harness(arg):
    import time

    t_start = time.time()
    h = make_harness(arg)
    policy = Policy(**h.policy)
    counters = {"executions": 0, "transitions_checked": 0, "nontrivial": 0, "markov_comparisons": 0, "db_edges": 0}
    viol, seen = [], {}

    def V(clause, what, choices=None):
        sig = f"C01/{h.name}/{clause}"
        seen[sig] = seen.get(sig, 0) + 1
        if seen[sig] <= 2:
            viol.append({"signature": sig, "what": what, "replay": {"check": PID, "func": "explore_harness", "arg": arg, "choices": choices}})

    # ---- BFS over states with one-trial kernels
    frontier = [h.state0]
    states = {h.key(h.state0): h.state0}
    P: dict = {}  # key -> {key2: prob}
    Q: dict = {}  # key -> {key2: proposal probability} (acceptance ignored): menu-closure precondition
    level = 0
    total_states = 0
    while frontier and level <= h.depth:
        nxt = []
        if h.expand_limit is not None and len(frontier) > h.expand_limit:
            step = len(frontier) / h.expand_limit
            frontier = [frontier[int(i * step)] for i in range(h.expand_limit)]
        for s in frontier:
            ks = h.key(s)
            if ks in P or not h.inside(s):
                continue
            execs, st = enumerate_kernel(h, s, policy, 1)
            counters["executions"] += st.executions
            row: dict = {}
            qrow: dict = {}
            mass = 0.0
            for rec in execs:
                if not rec:
                    continue
                r = rec[0]
                if "error" in r:
                    V(f"exception:{r['error']['type']}@{r['error']['qwhere']}", f"trial raised {r['error']['msg']} from state {js(s)}")
                    continue
                mass += r["w"]
                counters["transitions_checked"] += 1
                # 1. MH conformance
                if r["y"] is not None and r["t"] is not None:
                    logA = h.log_ratio(r["x"], r["y"], r["ac"])
                    t = r["t"]
                    if 0 < t < 1:
                        counters["nontrivial"] += 1
                    ok = (t >= 1.0 - 1e-15) if logA >= -1e-12 else (t > 0 and abs(math.log(t) - logA) <= h.tol * max(1.0, abs(logA)))
                    if logA >= -1e-12 and not ok and abs(math.log(max(t, 1e-300)) - logA) <= 1e-9:
                        ok = True
                    if not ok:
                        kind = "insertion" if np.size(r["y"]) > np.size(r["x"]) else "deletion" if np.size(r["y"]) < np.size(r["x"]) else r["name"]
                        V(f"acceptance-differs-from-target-ratio/{kind}", f"captured threshold {t!r}, target ratio exp({logA:.9g}) = {math.exp(min(logA, 50)):.9g}; from {js(r['x'])} to {js(r['y'])}", r["choices"])
                # 2. state update
                if r["verdict"] is True:
                    if r["y"] is None or not np.array_equal(np.asarray(r["post"]), np.asarray(r["y"])):
                        V("accepted-state-is-not-the-trial-configuration", f"from {js(r['x'])}", r["choices"])
                elif not np.array_equal(np.asarray(r["post"]), np.asarray(r["x"])):
                    V("rejected-trial-changed-the-state", f"verdict {r['verdict']}: {js(r['x'])} became {js(r['post'])}", r["choices"])
                kp = h.key(r["post"])
                row[kp] = row.get(kp, 0.0) + r["w"]
                if r["y"] is not None:
                    ky = h.key(r["y"])
                    qrow[ky] = qrow.get(ky, 0.0) + r["w"]  # accept + reject branches add up to the proposal probability
                if kp not in states:
                    states[kp] = r["post"]
                    nxt.append(r["post"])
            if abs(mass - 1.0) > 1e-9:
                V("probability-mass", f"one-trial executions from {js(s)} carry total probability {mass!r}")
            P[ks] = row
            Q[ks] = qrow
            total_states += 1
        frontier = nxt
        level += 1
    # ---- 3. Markov property: a second live trial vs the fresh kernel at the intermediate state.
    # Representatives of the first trial (each verdict, distinct post-states) are taken from the
    # one-trial kernel of the initial state; below each of them EVERY second trial is enumerated.
    if arg.get("markov", True):
        first, _ = enumerate_kernel(h, h.state0, policy, 1)
        reps, seen_rep = [], set()
        for want in (True, False, None):
            for rec in first:
                if rec and "error" not in rec[0] and rec[0]["verdict"] is want:
                    vetoed = any(p_[0] == "user" and p_[2] == 1 for p_ in rec[0]["seg"])  # a first trial with refused attempts is its own kind
                    kk = (want, h.key(rec[0]["post"]), vetoed)
                    if kk not in seen_rep and sum(1 for r_ in reps if r_[0]["verdict"] is want and r_[0].get("vetoed") == vetoed) < arg.get("markov_reps", 3):
                        rec[0]["vetoed"] = vetoed
                        seen_rep.add(kk)
                        reps.append(rec)
        for rec0 in reps:
            prefix = rec0[0]["choices"]

            def setup(sysm, st=h.state0):
                h.prepare(sysm, st)

            def run2(ch):
                sysm, trials = execute(h.spec, ch, 2, policy, setup=setup)
                sysm.close()
                return trials

            live = {}
            mid_state = None
            st2 = Stats()
            for ch, trials in explore(run2, stats=st2, root_prefix=prefix):
                if len(trials) < 2 or trials[0].error or trials[1].error:
                    continue
                t1, t2 = trials
                mid_state = h.state_of(arr(t1.post["arrays"]["positions"]), arr(t1.post["cell"]), t1.post["n"])
                w = 1.0
                for pnt in ch.trace:
                    if pnt.seg == t2.seg:
                        w *= pnt.weight
                post2 = h.state_of(arr(t2.post["arrays"]["positions"]), arr(t2.post["cell"]), t2.post["n"])
                k = (ch.segments().get(t2.seg, ()), None if (t2.at_criteria is None or not t2.thresholds) else float(f"{t2.thresholds[-1]:.9g}"), repr(t2.verdict), h.key(post2))
                live[k] = w
            counters["executions"] += st2.executions
            if mid_state is None:
                continue
            ex, st3 = enumerate_kernel(h, mid_state, policy, 1)
            counters["executions"] += st3.executions
            fk = {}
            for rec in ex:
                if rec and "error" not in rec[0]:
                    r = rec[0]
                    fk[(r["seg"], None if r["t"] is None else float(f"{r['t']:.9g}"), repr(r["verdict"]), h.key(r["post"]))] = r["w"]
            counters["markov_comparisons"] += 1
            v1 = rec0[0]["verdict"]
            if set(fk) != set(live) or any(abs(fk[k] - live[k]) > 1e-12 for k in fk):
                diff = sorted(set(fk) ^ set(live), key=repr)[:2]
                V(f"kernel-depends-on-history/after-{ {True: 'accepted', False: 'rejected', None: 'failed'}.get(v1, v1)}-trial", f"the behaviour of a trial following a {v1} trial differs from a fresh simulation at the same state {js(mid_state)}: e.g. {js(diff)}")
    # ---- 4. detailed balance on edges between expanded states (menu closure checked through the kernel with zero potential is implied by symmetric flows)
    K = None
    if isinstance(h, GCH):
        K = len(Policy(**h.policy).uniform(0, 1, (1, 3)))
    lp = (lambda s: h.log_pi(s, K)) if isinstance(h, GCH) else h.log_pi
    G = nx.DiGraph()
    for a, row in P.items():
        for b, p in row.items():
            if p > 0:
                G.add_edge(a, b)
    db_bad = 0
    if not h.edgewise:
        P_edges, P = P, {}
    same_dim = not isinstance(h, GCH)
    menu_symmetric = True
    for a, row in P.items():
        for b, p in row.items():
            if a == b or b not in P:
                continue
            if same_dim and abs(Q[a].get(b, 0.0) - Q[b].get(a, 0.0)) > 1e-12:
                # the coarse menu is not closed under inversion of this proposal: the edge-wise
                # layer does not apply (conformance and update layers still decide)
                counters["db_edges_skipped_menu_not_closed"] = counters.get("db_edges_skipped_menu_not_closed", 0) + 1
                menu_symmetric = False
                continue
            counters["db_edges"] += 1
            back = P[b].get(a, 0.0)
            fa = lp(states[a]) + math.log(p)
            fb = lp(states[b]) + (math.log(back) if back > 0 else -math.inf)
            if not abs(fa - fb) <= 1e-7 * max(1.0, abs(fa)):
                db_bad += 1
                if db_bad <= 2:
                    V("detailed-balance-violated", f"pi(x)P(x->y) = exp({fa:.9g}) but pi(y)P(y->x) = exp({fb:.9g}) for x={js(a)} y={js(b)} (P={p:.6g}, back={back:.6g})")
    if not h.edgewise:
        P = P_edges
    expanded = set(P) if h.edgewise else set()
    sub = G.subgraph(expanded)
    if len(expanded) > 1:
        if nx.number_strongly_connected_components(sub) != 1:
            V("not-irreducible-on-expanded-states", f"{nx.number_strongly_connected_components(sub)} strongly connected components among {len(expanded)} expanded states")
        if not any(P[a].get(a, 0) > 0 for a in expanded):
            V("no-self-loop", "no state with a positive probability of staying: the chain may be periodic")
    # ---- 5. closed chains: stationary vector
    stationary = None
    if h.closed and menu_symmetric and all(b in P for a in P for b in P[a]):
        keys = sorted(P, key=repr)
        M = np.array([[P[a].get(b, 0.0) for b in keys] for a in keys])
        w, v = np.linalg.eig(M.T)
        i = int(np.argmin(np.abs(w - 1)))
        pi = np.real(v[:, i])
        pi = pi / pi.sum()
        target = np.array([math.exp(lp(states[k])) for k in keys])
        target /= target.sum()
        stationary = {"states": len(keys), "max_abs_error": float(np.abs(pi - target).max())}
        if np.abs(pi - target).max() > 1e-9:
            V("stationary-distribution-differs-from-target", f"stationary vector of the enumerated {len(keys)}-state kernel {js(np.round(pi, 6))} vs target {js(np.round(target, 6))}")
        if isinstance(h, DipoleH):
            cos = np.array([k[2] / h.d for k in keys])
            stationary["mean_cos"] = float((pi * cos).sum())
            stationary["lattice_target_mean_cos"] = float((target * cos).sum())
    return {
        "counters": {**counters, "states": total_states, "edges": G.number_of_edges()},
        "violations": viol,
        "samples": [{"harness": h.name, "expanded_states": total_states, "edges": G.number_of_edges(), "stationary": stationary, "closed_chain_completed": stationary is not None, "seconds": round(time.time() - t_start, 1)}],
        "sets": {"harness": [h.name]},
    }


def make_harness(arg):
    h = _make_harness(arg)
    if "expand_limit" in arg:
        h.expand_limit = arg["expand_limit"]
    if arg.get("warm"):
        h.warm = True
        h.name += "/components-served-another-simulation"
    return h


def _make_harness(arg):
    k = arg["kind"]
    if k == "harmonic":
        return HarmonicH(arg["n"], arg["op"], depth=arg.get("depth", 2), table=arg.get("table"))
    if k == "dipole":
        return DipoleH(arg["x"])
    if k == "npt":
        return NPTH(arg["n"], kmax=arg.get("kmax", 4), with_disp=arg.get("with_disp", False))
    if k == "muvt":
        return GCH(arg.get("nmax", 2), with_disp=arg.get("with_disp", False), sites=arg.get("sites", 3), check=arg.get("check", False))
    if k == "muvt-mol":
        return GCMolH(sites=arg.get("sites", 2))
    raise ValueError(k)


# ---------------------------------------------------------------------------------- L2: orientation law
def task_orientations(arg):
    """Inserted / re-oriented molecules: the law of the orientation must be the uniform (Haar)
    one: moments l = 1, 2 of the rotated bond vector vanish (product-grid quadrature)."""
    from ase.atoms import Atoms

    from quansino.operations.displacement import Rotation, TranslationRotation

    K = arg["K"]
    counters = {"evaluations": 0}
    viol = []

    class Ctx:
        pass

    qs = [(i + 0.5) / K for i in range(K)]
    for opname, op, extra in (("rotation", Rotation(), 0), ("translation-rotation", TranslationRotation(), 3)):
        acc = np.zeros(9)
        n = 0
        ndraw = None
        for q in itertools.product(qs, repeat=3):
            atoms = Atoms("H2", positions=[[3, 3, 3], [3, 3, 3.74]], cell=[6] * 3, pbc=True)
            ctx = Ctx()
            ctx.atoms, ctx._moving_indices = atoms, np.array([0, 1])
            rng = QuantileRNG([0.3] * extra + list(q) + [0.5] * 6)
            ctx.rng = rng
            d = np.asarray(op.calculate(ctx))
            new = atoms.positions + d
            b = new[1] - new[0]
            b = b / np.linalg.norm(b)
            x, y, z = b
            acc += np.array([x, y, z, x * y, y * z, x * z, x * x - 1 / 3, y * y - 1 / 3, z * z - 1 / 3])
            n += 1
            counters["evaluations"] += 1
        m = acc / n
        tol = 4.0 / K**2 + 1e-3
        if np.abs(m).max() > tol:
            names = ["x", "y", "z", "xy", "yz", "xz", "xx-1/3", "yy-1/3", "zz-1/3"]
            i = int(np.argmax(np.abs(m)))
            viol.append({"signature": f"C01/orientation-law/{opname}/not-uniform", "what": f"over the {K}^3 quantile grid of the three angle draws the moment <{names[i]}> of the re-oriented bond vector is {m[i]:.4f} (uniform orientations: 0, tolerance {tol:.4f}); all moments {js(np.round(m, 4))}", "replay": {"check": PID, "func": "task_orientations", "arg": arg}})
    return {"counters": counters, "violations": viol, "samples": []}


# ---------------------------------------------------------------------------------- L3: Hamiltonian map
def task_hmc_volume(arg):
    from ase.atoms import Atoms

    from qv import calcs
    from quansino.integrators.displacement import Verlet

    counters = {"evaluations": 0}
    viol = []

    class Ctx:
        pass

    def phi(z, dt, steps, mass):
        atoms = Atoms("Ar", positions=[z[:3]], cell=[20] * 3)
        atoms.set_masses([mass])
        atoms.set_momenta([z[3:]])
        atoms.calc = calcs.Quartic(a=0.5, b=0.4, centre=(3, 3, 3))
        ctx = Ctx()
        ctx.atoms = atoms
        Verlet(dt=dt, max_steps=steps).integrate(ctx)
        return np.concatenate([atoms.positions[0], -atoms.get_momenta()[0]])

    for mass, dt, steps in itertools.product((1.0, 39.9), (0.5, 2.0), (1, 5)):
        for z0 in (np.array([3.3, 2.8, 3.1, 0.2, -0.1, 0.15]), np.array([2.5, 3.4, 3.0, -0.3, 0.0, 0.25])):
            z0 = z0.copy()
            z0[3:] *= math.sqrt(mass)
            J = np.zeros((6, 6))
            for j in range(6):
                e = np.zeros(6)
                e[j] = 1e-5 * (1 if j < 3 else math.sqrt(mass))
                J[:, j] = (phi(z0 + e, dt, steps, mass) - phi(z0 - e, dt, steps, mass)) / (2 * e[j])
            counters["evaluations"] += 1
            det = abs(np.linalg.det(J))
            back = phi(phi(z0, dt, steps, mass), dt, steps, mass)
            if abs(det - 1) > 1e-6:
                viol.append({"signature": "C01/hamiltonian-map/not-volume-preserving", "what": f"|det J| = {det!r} for dt={dt} steps={steps} mass={mass}", "replay": {}})
            if np.abs(back - z0).max() > 1e-9 * max(1, np.abs(z0).max()):
                viol.append({"signature": "C01/hamiltonian-map/not-an-involution", "what": f"dt={dt} steps={steps} mass={mass}", "replay": {}})
    return {"counters": counters, "violations": viol, "samples": []}


def harness_args(tier):
    a = []
    d = 2 if tier == "quick" else 3
    a.append({"kind": "harmonic", "n": 1, "op": "box", "depth": d})
    a.append({"kind": "harmonic", "n": 1, "op": "ball", "depth": 1 if tier == "quick" else 2})
    a.append({"kind": "dipole", "x": 2.0})
    a.append({"kind": "npt", "n": 1})
    a.append({"kind": "muvt", "nmax": 3 if tier == "thorough" else 2, "sites": 2})
    a.append({"kind": "muvt-mol", "markov_reps": 1})
    a.append({"kind": "harmonic", "n": 1, "op": "sphere", "depth": 1})
    a.append({"kind": "harmonic", "n": 2, "op": "box*2", "depth": 0, "table": [["d", "D_box*2"]], "markov_reps": 1})
    a.append({"kind": "npt", "n": 2, "kmax": 3})
    a.append({"kind": "npt", "n": 3, "kmax": 3})
    a.append({"kind": "dipole", "x": 0.5})
    a.append({"kind": "harmonic", "n": 2, "op": "box", "depth": 1, "markov_reps": 1})
    # criteria and operation objects shared with a simulation that ran at another temperature / pressure / chemical potential
    a.append({"kind": "muvt", "nmax": 2, "sites": 2, "warm": True, "markov_reps": 1})
    a.append({"kind": "muvt-mol", "markov_reps": 1, "warm": True})
    a.append({"kind": "npt", "n": 1, "warm": True, "markov_reps": 1})
    a.append({"kind": "harmonic", "n": 1, "op": "box", "depth": 1, "warm": True, "markov_reps": 1})
    a.append({"kind": "dipole", "x": 2.0, "warm": True, "markov_reps": 1})
    a.append({"kind": "muvt", "nmax": 1, "sites": 2, "check": True, "markov_reps": 1})
    if tier == "thorough":
        a.append({"kind": "harmonic", "n": 1, "op": "sphere", "depth": 2})
        a.append({"kind": "harmonic", "n": 1, "op": "ballbox", "depth": 1, "markov_reps": 1, "expand_limit": 6})
        a.append({"kind": "harmonic", "n": 2, "op": "ball", "depth": 1, "markov_reps": 2})
        a.append({"kind": "harmonic", "n": 2, "op": "box*2", "depth": 1, "table": [["d", "D_box*2"]], "markov_reps": 2, "expand_limit": 4})
        a.append({"kind": "dipole", "x": 5.0})
        a.append({"kind": "npt", "n": 2})
        a.append({"kind": "npt", "n": 3, "kmax": 5})
        a.append({"kind": "npt", "n": 2, "with_disp": True, "kmax": 2})
        a.append({"kind": "muvt", "nmax": 2, "sites": 3})
        a.append({"kind": "muvt", "nmax": 2, "with_disp": True, "sites": 2})
        a.append({"kind": "muvt-mol", "sites": 3, "expand_limit": 4})
    return a


def run(tier, seed):
    rep = Report("model_checking")
    acc = Acc()
    for r in pmap(__name__, "explore_harness", harness_args(tier)):
        acc.add(r)
    l2 = Acc()
    for r in pmap(__name__, "task_orientations", [{"K": 8 if tier == "quick" else 16}]):
        l2.add(r)
    for r in pmap(__name__, "task_hmc_volume", [{}]):
        l2.add(r)
    rep.violations = acc.violations + l2.violations
    rep.coverage = {
        "states": acc.n("states"),
        "transitions": acc.n("edges"),
        "traces_validated_against_impl": acc.n("executions"),
        "executions": acc.n("executions"),
        "transitions_with_conformance_and_update_checked": acc.n("transitions_checked"),
        "thresholds_strictly_inside_0_1": acc.n("nontrivial"),
        "markov_comparisons": acc.n("markov_comparisons"),
        "detailed_balance_edges": acc.n("db_edges"),
        "orientation_and_hamiltonian_map_evaluations": l2.n("evaluations"),
        "harnesses": sorted(acc.sets.get("harness", ())),
        "bound": "BFS from the initial state to depth 2 (quick) / 3 (thorough) of the real one-trial kernel under coarse inversion-closed menus (uniform: quantiles 1/6,1/2,5/6 per component; angles: 0,1/4,1/2,3/4 turn); closed chain for the dipole (6 bond directions); |k| <= 4 on the log-volume lattice; N <= 2 (3) particles on 27 insertion sites",
        "exhaustive": True,
        "samples": acc.samples[:6],
    }
    rep.assumptions = [
        "the exact kernel of the real code is verified on lattices; the passage to the continuum averages is the standard argument (reversibility w.r.t. the target + irreducibility), PCG64's equidistribution is trusted",
        "values off the lattices and particle numbers above the bound are not covered",
    ]
    return rep


def replay(data):
    f = {"explore_harness": explore_harness, "task_orientations": task_orientations}[data["func"]]
    res = f(data["arg"])
    return {"signatures": sorted({v["signature"] for v in res["violations"]})}
