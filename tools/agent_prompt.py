#!/venv/bin/python
"""Print the prompt for a mutation sub-agent: tools/agent_prompt.py C03 /tmp/wt/c03a [n]"""
import json, sys
pid, wt = sys.argv[1], sys.argv[2]
n = int(sys.argv[3]) if len(sys.argv) > 3 else 3
extra = sys.argv[4] if len(sys.argv) > 4 else ""
for l in open('/verif/properties.jsonl'):
    p = json.loads(l)
    if p['id'] == pid:
        break
print(f"""You are helping to evaluate a verification effort for the Python package quansino (Atomic-Samplers/quansino: a framework on ASE for modular Monte Carlo simulations of atomic systems: canonical, isobaric, isotension, grand-canonical and force-bias MC with moves, contexts and criteria).

Your own scratch git worktree of the repository is at {wt} (work ONLY there; never touch /repo or /verif, and do not read anything under /verif). The sandbox has no network. The interpreter is /venv/bin/python; the package is installed in editable mode from another directory, so ALWAYS run with PYTHONPATH={wt}/src so that your worktree's sources are the ones imported, e.g.
  cd {wt} && PYTHONPATH={wt}/src /venv/bin/python -m pytest -q -p no:cacheprovider --timeout=900 tests
(the full suite takes about 5 minutes; 73-74 tests pass on the unmodified tree; tests/mc/test_isotension.py::test_isotension_simulation_with_mask is known to be flaky).

Here is a semantic property the package is supposed to satisfy:

  Title: {p['title']}
  Statement: {p['statement']}
  Quantified over: {p['quantifier']['text']}
  Code it is anchored in: {', '.join(p['anchors']['files'])}

Task: produce {n} DIFFERENT, independent, realistic changes ("mutations") to the quansino sources (under src/quansino only; do not edit tests) such that each one
  (a) BREAKS the property above, i.e. there is a concrete scenario in which the statement is false with the change and true without it;
  (b) still imports/compiles and the ENTIRE existing test suite still passes with the change (run it to be sure; the flaky test may be ignored);
  (c) looks like a plausible programming slip or well-meant refactoring (an off-by-one, a dropped copy, a reordered update, a wrong variable, state hoisted to the wrong scope, an early return, a condition slightly too broad/narrow ...), not sabotage and not a syntax trick;
  (d) needs something SPECIFIC to manifest: a particular accept/reject/fail history, a multi-step sequence of operations, an unusual but legal input or configuration, a crash/restart at a particular point, or two cooperating sites that each look fine alone. Avoid changes that any ordinary short run would expose at once. {extra}
Each mutation should be small (a few lines) and touch a different mechanism than the others.

For each mutation i = 1..{n} write, into the directory {wt}/_out/ (create it):
  mut<i>.diff   - the change as a unified diff produced by `git diff` in the worktree (relative to the worktree's HEAD; it must apply with `git apply` to a clean checkout of HEAD);
  demo<i>.py    - a small stand-alone program (run as `PYTHONPATH=<src> /venv/bin/python demo<i>.py`) that exits 0 and prints PASS when the property holds in the scenario and exits 1 and prints FAIL (with a short explanation) when it is violated; it must FAIL with the mutation applied and PASS on the unmodified HEAD. It must be deterministic (fixed seeds) and run in under a minute;
  meta<i>.json  - {{"property": "{pid}", "summary": "...what the change is...", "needs": "...what is needed for it to manifest...", "tests_run": "...the command you ran and its result..."}}
Work on one mutation at a time: apply it, run the demo (must FAIL), run the whole test suite (must pass), save the diff, then `git checkout -- src` to return to a clean tree, verify the demo PASSES on the clean tree, and go on. Leave the worktree clean (only _out/ untracked) when done. Do not commit anything. Never use `git stash` (the stash is shared between all worktrees of the repository and other agents are working in theirs: use `git diff > file; git checkout -- src; git apply file`), and never use pkill/killall.

Important: the unmodified tree already has some known weaknesses; your demo must PASS on the unmodified tree, so choose scenarios where the unmodified code behaves correctly. Report at the end, for each mutation, a two-line summary and the path of its files.""")
