"""C05 - grand-canonical bookkeeping tracks the real system.

All accept/reject/fail histories of GrandCanonical runs (depth 3 quick / 4 thorough) for move
tables with several label-bearing moves, composites (+, *), the same object repeated, atomic and
molecular species, several initial labelings and configured default labels.  A reference model
(particles identified through a per-atom marker array the harness maintains) is compared with
the labels of every label-bearing (sub)move and with the particle counter after every trial.
"""

from __future__ import annotations

import numpy as np

from qv.core import Chooser, Stats, explore, js
from qv.drive import execute
from qv.rngx import Policy
from qv.runner import Acc, Report, pmap
from qv.snapshot import atoms_snapshot, digest

PID = "C05"
POLICY = dict(uniform_q=(0.3, 0.8), angular_q=None, product_limit=0, branch_calls=0)


class ChoiceCriteria:
    """User-defined criteria (protocol only) whose verdict is chosen by the explorer."""

    def __init__(self, chooser):
        self.chooser = chooser

    def evaluate(self, context):
        return self.chooser.pick("verdict", 2, None, ["accept", "reject"]) == 0

    def to_dict(self):
        return {"name": "ChoiceCriteria"}

    @classmethod
    def from_dict(cls, data):
        raise NotImplementedError


def specs(tier, seed):
    j = 0.01 * ((seed % 7) + 1)
    out = []
    d0 = 3 if tier == "quick" else 4
    dc = 2 if tier == "quick" else 3

    def add(atoms, table, kind, real=False, default_label="unset", labels=None, depth=None, variant="", **kw):
        s = dict(ens="GrandCanonical", atoms=atoms, table=table, kind=kind, real=real, default_label=default_label, jitter=j, depth=depth or d0, calc="zero", variant=variant, **kw)
        if labels is not None:
            s["labels"] = labels
        out.append(s)

    add("A2", [["e", "E_trans"]], "E")
    add("A2", [["e", "E_trans"]], "E", real=True, mu=-0.2, T=1000.0, variant="real-criteria")
    add("A2", [["e", "E_trans"], ["d", "D_ball"]], "E|D")
    add("A2", [["e", "E_trans"], ["f", "E_trans"]], "E|E")
    add("A2", [["e", "E_trans"], ["f", "=e"]], "E=E")
    add("A2", [["e", "E_trans*2"]], "E*2", depth=dc)
    add("A2", [["e", "E_trans+E_trans"]], "E+E", depth=dc)
    add("A2", [["x", "D_ball+E_trans", 1.0, "gc"]], "D+E")
    add("A2", [["d", "D_ball*2"], ["e", "E_trans"]], "D*2|E")
    add("M1", [["e", "E_transrot"]], "E", variant="mol")
    add("M1", [["e", "E_transrot"], ["d", "D_rot"]], "E|D", variant="mol")
    add("M", [["e", "E_transrot"]], "E", variant="mol", depth=dc)
    add("M", [["e", "E_transrot*2"]], "E*2", variant="mol", depth=dc)
    # members' geometric checks answered by the explorer: one member may succeed while another fails
    add("A2", [["e", "E_trans*2"]], "E*2", depth=dc, check=True)
    add("A2", [["e", "E_trans+E_trans"]], "E+E", depth=dc, check=True)
    # one trial deleting one particle and inserting another (plain composite of two one-way exchange moves)
    add("A2", [["x", "G[E0_trans,E1_trans]", 1.0, "gc"]], "G[E0,E1]", depth=dc)
    add("A3", [["x", "G[D_ball,E0_trans,E1_trans]", 1.0, "gc"], ["e", "E_trans"]], "G[D,E0,E1]|E", depth=dc, labels=[0, -1, 1])
    add("M", [["x", "G[E0_transrot,E1_transrot]", 1.0, "gc"], ["d", "D_rot"]], "G[E0,E1]|D", depth=dc, variant="mol")
    # the same move object stand-alone and inside a composite
    add("A2", [["e", "E_trans"], ["x", "D_ball+=e"]], "E|D+E", variant="shared-with-composite")
    add("A2", [["d", "D_ball"], ["e", "E_trans"], ["x", "=d+=e"]], "D|E|D+E", variant="shared-with-composite", depth=dc)
    add("A2", [["e", "E_trans"]], "E", variant="move-added-after-first-trial", late_add=1)
    add("A1", [["e", "E_trans"], ["d", "D_ball"]], "E|D", variant="move-added-after-second-trial", late_add=2)
    add("A0", [["e", "E_trans"]], "E", variant="empty-start")
    add("A3", [["e", "E_trans"]], "E", labels=[5, -1, 2], variant="labels-noncontiguous")
    add("A3", [["e", "E_trans"], ["d", "D_ball"]], "E|D", labels=[1, 0, -1], variant="labels-unsorted", depth=dc)
    for dl in (None, 0, 3, -1):
        add("A1", [["e", "E_trans"]], "E", default_label=dl, variant=f"default_label={dl}")
    add("M1", [["e", "E_transrot"]], "E", default_label=0, variant="mol-default_label=0")
    add("A1", [["e", "E_trans"], ["d", "D_ball"]], "E|D", default_label=-1, variant="default_label=-1")
    add("A1", [["e", "E_trans"], ["d", "D_ball"]], "E|D", default_label=-2, variant="default_label=-2", labels=[-2])
    if tier == "thorough":
        add("A1", [["e", "E_trans"], ["d", "D_ball"], ["f", "E_trans"]], "E|D|E", depth=3)
        add("A2", [["e", "E_trans*3"]], "E*3", depth=2)
        add("M1", [["e", "E_transrot*2"]], "E*2", variant="mol", depth=2)
        add("A2", [["e", "E_trans"]], "E", real=True, mu=0.1, T=500.0, variant="real-criteria-2")
        add("A1", [["e", "E_trans"], ["d", "D_ball+D_box"]], "E|D+D", depth=4)
    return out


def _unique_leaves(sysm):
    seen, out = set(), []
    for m in sysm.leaves:
        if id(m) not in seen and hasattr(m, "labels"):
            seen.add(id(m))
            out.append(m)
    return out


def _probe(sysm):
    atoms = sysm.atoms
    uid = atoms.arrays.get("uid")
    if uid is not None and (uid == 0).any():
        # fresh marker for atoms that appeared (harness bookkeeping, invisible to quansino)
        zero = np.flatnonzero(uid == 0)
        uid[zero] = np.arange(sysm.next_uid, sysm.next_uid + len(zero))
        sysm.next_uid += len(zero)
    return {
        "uid": None if uid is None else uid.copy(),
        "labels": [np.asarray(m.labels).copy() for m in _unique_leaves(sysm)],
        "nex": sysm.mc.number_of_exchange_particles,
        "template": digest(atoms_snapshot(sysm.mc.exchange_atoms)),
        "n": len(atoms),
        "pos": atoms.positions.copy(),
    }


def task(spec):
    depth = spec["depth"]
    policy = Policy(**POLICY)
    viol = []
    counters = {"executions": 0, "trials": 0, "accepted_insertions": 0, "accepted_deletions": 0, "model_comparisons": 0}
    sets = {"states": set(), "outcomes": set()}
    samples = []
    st = Stats()
    only = spec.get("only")
    bspec = dict(spec)
    bspec["table"] = [e for e in spec["table"] if "=" not in e[1]]
    aliases = [(e[0], e[1] if "+" in e[1] else e[1][1:]) for e in spec["table"] if "=" in e[1]]

    def run(ch: Chooser):
        def setup(sysm):
            mc, atoms = sysm.mc, sysm.atoms
            for new, old in aliases:  # the same move object under a second name / inside a composite
                if "+" in old:
                    from qv.systems import make_move

                    mv = None
                    for part in old.split("+"):
                        if part.startswith("="):
                            m = mc.moves[part[1:]].move
                        else:
                            m, lv = make_move(part, sysm.spec.get("labels", [int(x) for x in next(iter(sysm.leaves)).labels]))
                            sysm.leaves.extend(lv)
                        mv = m if mv is None else mv + m
                    mc.add_move(mv, criteria=ChoiceCriteria(ch), name=new)
                    sysm.entries[new] = mv
                    continue
                stor = mc.moves[old]
                mc.add_move(stor.move, criteria=stor.criteria, name=new)
                sysm.entries[new] = stor.move
            atoms.set_array("uid", np.arange(1, len(atoms) + 1, dtype=int))
            sysm.next_uid = len(atoms) + 1
            if not spec.get("real"):
                for s in mc.moves.values():
                    s.criteria = ChoiceCriteria(ch)
            dl = spec.get("default_label", "unset")
            if dl != "unset":
                for m in _unique_leaves(sysm):
                    m.default_label = dl
            sysm.tsize = len(mc.exchange_atoms)
            sysm.init = _probe(sysm)

        def before_trial(sysm, k, sink):
            # a label-bearing move added to the table while the simulation is under way
            if spec.get("late_add") == k:
                from quansino.moves.displacement import DisplacementMove
                from quansino.operations.displacement import Ball

                from qv.drive import RecordingCriteria

                mv = DisplacementMove(np.arange(len(sysm.atoms)), Ball(0.2))
                sysm.mc.add_move(mv, criteria=RecordingCriteria(ChoiceCriteria(ch), sink), name="late")
                sysm.leaves.append(mv)
                sysm.entries["late"] = mv

        sysm, trials = execute(bspec, ch, depth, policy, probe=_probe, setup=setup, before_trial=before_trial)
        init, tsize = sysm.init, sysm.tsize
        sysm.close()
        return init, tsize, trials

    if only is not None:
        ch = Chooser(only)
        gen = [(ch, run(ch))]
    else:
        gen = explore(run, stats=st)
    for ch, (init, tsize, trials) in gen:
        counters["executions"] += 1
        v = _check_execution(spec, ch, init, tsize, trials, counters, sets)
        if v:
            viol.append(v)
        if len(samples) < 2 and len(trials) == depth and any(t.verdict is True for t in trials):
            samples.append(
                {
                    "spec": js({k: v for k, v in spec.items() if k != "only"}),
                    "history": [[t.name, js(t.verdict)] for t in trials],
                    "final_labels": [js(x) for x in trials[-1].extra_post["labels"]] if trials[-1].extra_post else None,
                    "final_n_atoms": trials[-1].extra_post["n"] if trials[-1].extra_post else None,
                }
            )
    counters["transitions"] = st.points
    return {"counters": counters, "sets": {k: list(v) for k, v in sets.items()}, "violations": viol, "samples": samples, "maxima": {"max_depth": st.max_depth}}


def _check_execution(spec, ch, init, tsize, trials, counters, sets):
    kind, variant = spec["kind"], spec.get("variant") or "plain"
    dl = spec.get("default_label", "unset")
    rep = {"check": PID, "func": "task", "arg": {**{k: v for k, v in spec.items() if k != "only"}, "only": ch.choices}}
    hist = lambda: js([[t.name, t.verdict] for t in trials])  # noqa: E731

    def V(clause, what):
        return {"signature": f"C05/{kind}/{variant}/{clause}", "what": f"{what} (history {hist()})", "replay": rep}

    label0 = [dict(zip(init["uid"].tolist(), lab.tolist())) for lab in init["labels"]]
    # particle model: initial particles are the label groups of the first exchange-capable labeling
    new_particles: list[set] = []  # sets of uids, one per inserted particle still present
    nex = init["nex"]
    for t in trials:
        counters["trials"] += 1
        if t.error is not None:
            return V(f"exception/{t.error['type']}@{t.error['qwhere'] or t.error['where']}", f"trial of {t.name} raised {t.error['type']}: {t.error['msg']}")
        pre, post = t.extra_pre, t.extra_post
        u0, u1 = pre["uid"], post["uid"]
        for mi, lab in enumerate(pre["labels"]):
            if mi >= len(label0):  # a move added under way: its user-supplied labels are its initial ones
                label0.append(dict(zip(u0.tolist(), lab.tolist())))
        removed = set(u0.tolist()) - set(u1.tolist())
        added = [u for u in u1.tolist() if u not in set(u0.tolist())]
        if t.verdict is not True and (removed or added):
            # atoms changed by a non-accepted trial: C03's statement; C05's part is the alignment
            for lab in post["labels"]:
                if len(lab) != post["n"]:
                    return V("labels-length-after-abandoned-trial", f"a {'rejected' if t.verdict is False else 'failed'} trial left {post['n']} atoms but a move carries {len(lab)} labels")
            return None
        # a do-not-touch (negative) label is honoured: such atoms are never displaced
        if not removed and not added and len(u0) == len(u1) and pre["labels"]:
            moved = np.flatnonzero(np.abs(post["pos"] - pre["pos"]).max(axis=1) > 0)
            if len(moved):
                ok_for_some_move = any(len(lab) == len(u0) and all(lab[i] >= 0 for i in moved) for lab in pre["labels"])
                if not ok_for_some_move:
                    return V("negative-label-atom-displaced", f"atoms {moved.tolist()} moved although every label-bearing move marks at least one of them as do-not-touch (labels {[l.tolist() for l in pre['labels']]})")
        # ---- model update
        if added:
            if tsize == 0 or len(added) % tsize:
                return V("insertion-size", f"{len(added)} atoms appeared, template has {tsize}")
            for k in range(0, len(added), tsize):
                new_particles.append(set(added[k : k + tsize]))
                nex += 1
                counters["accepted_insertions"] += 1
        if removed:
            # one accepted deletion removes one label group ("particle" in the package's sense:
            # atoms sharing a non-negative label; a configured shared default label makes several
            # inserted groups one particle by the user's own choice)
            ndel = None
            for lab in pre["labels"]:
                if len(lab) != len(u0):
                    continue
                ls = {int(l) for u, l in zip(u0.tolist(), lab.tolist()) if u in removed}
                if ls and min(ls) >= 0:
                    ndel = len(ls)
                    break
            if ndel is None:
                ndel = 1
            for p in [p for p in new_particles if p & removed]:
                if not p <= removed:
                    return V("particle-partially-deleted", "part of an inserted particle was deleted")
                new_particles.remove(p)
            nex -= ndel
            counters["accepted_deletions"] += ndel
        # ---- comparisons
        counters["model_comparisons"] += 1
        sets["outcomes"].add((t.name, repr(t.verdict), len(added) > 0, len(removed) > 0))
        sets["states"].add(digest((u1.tolist(), [x.tolist() for x in post["labels"]], post["nex"])))
        n = post["n"]
        if post["template"] != init["template"]:
            return V("template-modified", "the user's exchange template was modified")
        if post["nex"] != nex:
            return V("counter", f"number_of_exchange_particles is {post['nex']}, model says {nex}")
        for mi, lab in enumerate(post["labels"]):
            if mi >= len(label0):
                continue
            if len(lab) != n:
                return V("labels-length", f"a move carries {len(lab)} labels for {n} atoms")
            by_uid = dict(zip(u1.tolist(), lab.tolist()))
            for u, l0 in label0[mi].items():
                if u in by_uid and by_uid[u] != l0:
                    return V("initial-label-moved", f"an initial atom's label changed from {l0} to {by_uid[u]}: labels no longer aligned with atoms")
            for p in new_particles:
                if mi < len(label0) and all(u in label0[mi] for u in p):
                    continue  # present when this move was added: covered by the initial-label clause
                ls = {by_uid[u] for u in p}
                if len(ls) != 1:
                    return V("particle-split", f"the atoms of one inserted particle carry labels {sorted(ls)}")
                lp = ls.pop()
                if dl not in ("unset", None):
                    if lp != dl:
                        return V(f"default-label-ignored:{dl}", f"configured label {dl} for new atoms, got {lp}")
                    continue
                if lp < 0:
                    return V("new-label-negative", f"new particle got label {lp} without a configured default")
                others = {by_uid[u] for u in by_uid if u not in p}
                if lp in others:
                    return V("label-shared-between-particles", f"a new particle shares label {lp} with another particle")
    return None


def run(tier, seed):
    rep = Report("model_checking")
    acc = Acc()
    sp = specs(tier, seed)
    for r in pmap(__name__, "task", sp):
        acc.add(r)
    rep.violations = acc.violations
    rep.coverage = {
        "systems": len(sp),
        "states": len(acc.sets.get("states", ())),
        "transitions": acc.n("transitions"),
        "traces_validated_against_impl": acc.n("executions"),
        "executions": acc.n("executions"),
        "trials": acc.n("trials"),
        "model_comparisons": acc.n("model_comparisons"),
        "accepted_insertions": acc.n("accepted_insertions"),
        "accepted_deletions": acc.n("accepted_deletions"),
        "distinct_outcomes": len(acc.sets.get("outcomes", ())),
        "bound": "all histories to depth 3 (quick; 2 for composites) / 4 (thorough; 3 for composites); every scheduled move, every particle choice, insertion/deletion, explorer-chosen or real verdicts; one proposal value per draw",
        "exhaustive": True,
        "samples": acc.samples[:4],
    }
    rep.assumptions = ["inserted atoms are recognised through a zero-initialised per-atom marker array (ASE extend semantics)", "explorer-controlled criteria implement only the documented Criteria protocol"]
    return rep


def replay(data):
    res = task(data["arg"])
    return {"signatures": sorted({v["signature"] for v in res["violations"]}), "counters": res["counters"]}
