"""C13 - force-bias steps are bounded and follow the published force-biased density.

(i) the acceptance function of the rejection sampler (``calculate_trial_probability``) is
    evaluated on a 64-point grid of reduced displacements for a grid of forces x delta x T and
    compared with an independent, numerically stable implementation of the Bal-Neyts density;
(ii) real ``step()`` calls under prescribed generator answers (including rounds that reject
    some coordinates): bound, exact advance by the reported displacement, single advance;
(iii) real PCG64, seeds 0..31, huge forces: number of sampling rounds monitored.
"""

from __future__ import annotations

import itertools
import warnings

import numpy as np
from ase import units
from ase.atoms import Atoms
from ase.calculators.calculator import Calculator, all_changes

from qv.core import HarnessError, js
from qv.rngx import QuantileRNG
from qv.runner import Acc, Report, pmap

PID = "C13"
FVALS = [0.0, 1e-12, -1e-12, 1e-7, -1e-7, 1e-3, -1e-3, 1.0, -1.0, 50.0, -50.0, 1e6, -1e6, 1e300, -1e300]
GMAX = 709.782712


class ConstF(Calculator):
    implemented_properties = ["energy", "forces"]

    def __init__(self, forces):
        super().__init__()
        self.f = np.asarray(forces, dtype=float)

    def calculate(self, atoms=None, properties=("energy",), system_changes=all_changes):
        super().calculate(atoms, properties, system_changes)
        self.results = {"energy": 0.0, "forces": self.f.copy()}


def make(forces, delta, T, seed=1, masses=None, constraint=None):
    from quansino.mc.fbmc import ForceBias

    atoms = Atoms("CuArH", positions=[[1, 1.2, 0.9], [3.1, 2.2, 4.0], [4.4, 4.9, 2.1]], cell=[8] * 3, pbc=True)
    if masses is not None:
        atoms.set_masses(masses)
    atoms.calc = ConstF(forces)
    with warnings.catch_warnings():
        warnings.simplefilter("ignore")
        sim = ForceBias(atoms, delta, temperature=T, seed=seed)
    return sim, atoms


def bal_neyts(zeta, gamma):
    """P(zeta; gamma) normalised to P(0)=1, stable for any finite gamma (uses P(z;g)=P(-z;-g))."""
    z = np.where(gamma < 0, -zeta, zeta)
    g = np.abs(gamma)
    out = np.empty_like(z)
    small = g < 1e-300
    with np.errstate(all="ignore"):
        denom = np.expm1(-2 * g)
        pos = np.expm1(-2 * g * (1 - z)) / denom
        neg = np.exp(2 * g * z) * np.expm1(-2 * g * (1 + z)) / denom
    out = np.where(z >= 0, pos, neg)
    tri = np.where(z >= 0, 1 - z, 1 + z)
    return np.where(small, tri, out)


def force_patterns():
    """(3,3) force arrays: every value of FVALS appears, mixed signs within one atom."""
    pats = []
    for k in range(len(FVALS)):
        f = np.array([FVALS[(k + j * 5) % len(FVALS)] for j in range(9)]).reshape(3, 3)
        pats.append(f)
    pats.append(np.zeros((3, 3)))
    pats.append(np.full((3, 3), 1e300))
    return pats


def deltas():
    return [1e-3, 0.1, 1.0, np.array([[0.05, 0.1, 0.2], [0.1, 0.1, 0.1], [0.3, 0.02, 0.15]])]


def _adder(arg, func):
    viol, seen = [], {}

    def V(sig, what):
        seen[sig] = seen.get(sig, 0) + 1
        if seen[sig] <= 2:
            viol.append({"signature": sig, "what": what, "replay": {"check": PID, "func": func, "arg": arg}})

    return viol, seen, V


def task_density(arg):
    counters = {"evaluations": 0, "nontrivial": 0}
    viol, seen, V = _adder(arg, "task_density")
    zgrid = (np.arange(64) + 0.5) / 32 - 1  # 64 midpoints in (-1, 1)
    for T in arg["T"]:
        for delta in deltas():
            for F in force_patterns():
                sim, atoms = make(F, delta, T if not arg.get("retemper") else 3.0 * T + 50.0)
                if arg.get("retemper"):
                    sim.temperature = T  # heated / cooled after construction
                try:
                    with np.errstate(all="ignore"):
                        sim.calculate_gamma(F)
                        gamma = np.asarray(sim.gamma, dtype=float)
                        true_gamma = np.clip(F * delta / (2 * T * units.kB), -1e308, 1e308)
                        acc_sum = np.zeros((3, 3))
                        worst = 0.0
                        for z in zgrid:
                            sim.zeta = np.full((3, 3), z)
                            p = np.asarray(sim.calculate_trial_probability(), dtype=float)
                            counters["evaluations"] += 1
                            where = f"zeta={z:.4f} T={T} delta={js(delta) if np.ndim(delta) == 0 else 'array'} forces={js(F[0])}..."
                            if p.shape != (3, 3) or not np.all(np.isfinite(p)):
                                V("C13/density/non-finite-probability", f"P = {js(p)}; {where}")
                                break
                            # rounding level: exp(g) - exp(-g) carries a relative error ~ 2e-16/|g|
                            sub = np.abs(true_gamma) < 1e-9
                            slack = np.where(sub, 1e-3, 1e-6)
                            if np.any(p < -slack) or np.any(p > 1 + slack):
                                V("C13/density/probability-outside-[0,1]", f"P = {js(p)}; {where}")
                                break
                            ref = bal_neyts(np.full((3, 3), z), true_gamma)
                            zero = true_gamma == 0
                            dens = ~sub
                            if dens.any():
                                counters["nontrivial"] += 1
                                tolg = 1e-7 + 1e-15 / np.maximum(np.abs(true_gamma), 1e-300)
                                excess = np.where(dens, np.abs(p - ref) - tolg, -1.0)
                                err = excess.max()
                                worst = max(worst, err)
                                if err > 0:
                                    i = np.unravel_index(np.argmax(excess), (3, 3))
                                    side = "along-force" if z * true_gamma[i] > 0 else "against-force"
                                    V(f"C13/density/differs-from-bal-neyts/{side}", f"P={p[i]!r} vs density {ref[i]!r} for gamma={true_gamma[i]:.6g}; {where}")
                                    break
                            acc_sum += np.clip(p, 0, 1)
                        else:
                            mean_acc = acc_sum / len(zgrid)
                            if np.any(mean_acc < 0.2):
                                V("C13/density/acceptance-floor", f"mean acceptance over the zeta grid {js(mean_acc)} < 0.2: the rejection loop may not terminate in reasonable time; T={T}")
                            # favoured direction: P(z) >= P(-z) for z along the force
                            for z in (0.25, 0.75):
                                sim.zeta = np.full((3, 3), z)
                                pp = np.asarray(sim.calculate_trial_probability(), dtype=float)
                                sim.zeta = np.full((3, 3), -z)
                                pm = np.asarray(sim.calculate_trial_probability(), dtype=float)
                                big = np.abs(true_gamma) >= 1e-6
                                wrong = big & (np.sign(true_gamma) * (pp - pm) < -1e-9)
                                if wrong.any():
                                    V("C13/density/displacement-against-force-favoured", f"P(+{z})={js(pp[wrong])} P(-{z})={js(pm[wrong])} gamma={js(true_gamma[wrong])}")
                finally:
                    sim.close()
    return {"counters": counters, "violations": viol, "samples": []}


def task_step(arg):
    """Real step() with prescribed generator answers."""
    counters = {"evaluations": 0, "nontrivial": 0}
    viol, seen, V = _adder(arg, "task_step")
    T = arg["T"]
    masses_opts = [None, [1.0, 63.5, 197.0], "changed-after-construction", "driver-masses-only"]
    powers = [0.25, 0.5, {"Cu": 0.3, "H": 0.1}, np.array([[0.25, 0.5, 0.1], [0.0, 0.3, 0.25], [1.0, 0.25, 0.4]])]
    # first-round answers per coordinate: (zeta quantile, u quantile); later rounds accept
    first_rounds = [
        ([0.5] * 9, [0.3] * 9),  # zeta = 0: P = 1: all accepted at once
        ([0.95, 0.05] * 4 + [0.95], [0.999] * 9),  # near the ends with u ~ 1: most coordinates rejected
        ([0.999, 0.001, 0.6, 0.4, 0.75, 0.25, 0.9, 0.1, 0.5], [0.5, 0.5, 0.9, 0.9, 0.1, 0.1, 0.7, 0.3, 0.99]),
        ([0.0] * 4 + [1 - 2**-53] * 5, [0.0] * 9),  # extreme answers: zeta = -1 / just below +1
    ]
    for delta in deltas():
        for F in force_patterns()[:: arg.get("stride", 1)]:
            for mi, masses in enumerate(masses_opts):
                for pw in powers:
                    for fr, (zq, uq) in enumerate(first_rounds):
                        sim, atoms = make(F, delta, T if not arg.get("retemper") else 7.0 * T + 11.0, masses=None if isinstance(masses, str) else masses)
                        try:
                            sim.masses_scaling_power = pw if not isinstance(pw, float) else float(pw)
                            if masses == "changed-after-construction":  # e.g. an isotope substitution, then the documented update_masses()
                                atoms.set_masses([12.0, 197.0, 2.0])
                                sim.update_masses()
                            custom = None
                            if masses == "driver-masses-only":  # fictitious displacement masses, atoms untouched
                                custom = np.array([[4.0, 4.0, 4.0], [64.0, 64.0, 64.0], [16.0, 1.0, 16.0]])
                                sim.update_masses(custom)
                            if arg.get("retemper"):  # temperature ramp: changed on the existing object
                                sim.temperature = T
                            # later rounds: zeta alternates around 0 (P ~ 1), u = 0 -> accepted
                            later = []
                            for _ in range(12):
                                later += [0.5 + 0.01 * ((j % 3) - 1) for j in range(9)] + [0.0] * 9
                            rng = QuantileRNG(list(zq) + list(uq) + later)
                            sim._rng = rng
                            rounds = {"n": 0}
                            gz = sim.get_zeta

                            def counted(gz=gz, rounds=rounds):
                                rounds["n"] += 1
                                if rounds["n"] > 40:
                                    raise HarnessError("rejection loop did not finish with accepting answers")
                                return gz()

                            sim.get_zeta = counted
                            before = atoms.positions.copy()
                            step0 = sim.step_count
                            with np.errstate(all="ignore"):
                                sim.run(1)
                            counters["evaluations"] += 1
                            if rounds["n"] > 1:
                                counters["nontrivial"] += 1
                            dx = atoms.positions - before
                            m = atoms.get_masses()[:, None] * np.ones((1, 3)) if custom is None else custom
                            pwr = sim.masses_scaling_power
                            scale = np.power(m.min() / m, pwr)
                            bound = np.asarray(delta) * scale
                            where = f"T={T} delta={'array' if np.ndim(delta) else delta} masses={masses if isinstance(masses, str) else 'mixed' if masses else 'default'} power={'dict' if isinstance(pw, dict) else 'array' if isinstance(pw, np.ndarray) else pw} first-round #{fr} forces={js(F[0])}..."
                            if not np.all(np.isfinite(dx)):
                                V("C13/step/non-finite-displacement", where)
                                continue
                            if np.any(np.abs(dx) > bound * (1 + 1e-9) + 1e-15):
                                V("C13/step/displacement-exceeds-bound", f"|dx|={js(np.abs(dx))} bound={js(bound)}; {where}")
                                continue
                            zeta = np.asarray(sim.zeta, dtype=float)
                            if zeta.shape != (3, 3) or np.any(np.abs(zeta) > 1):
                                V("C13/step/zeta-out-of-range", f"zeta={js(zeta)}; {where}")
                                continue
                            want = zeta * np.asarray(delta) * scale
                            if not np.allclose(dx, want, rtol=1e-9, atol=1e-13):
                                V("C13/step/advance-differs-from-reported-displacement", f"dx={js(dx)} zeta*delta*scale={js(want)}; {where}")
                                continue
                            if sim.step_count != step0 + 1:
                                V("C13/step/step-counter", f"step_count advanced by {sim.step_count - step0}; {where}")
                        except HarnessError as e:
                            V("C13/step/does-not-terminate-with-accepting-answers", f"{e}; T={T}")
                        except Exception as e:  # noqa: BLE001
                            V(f"C13/step/exception:{type(e).__name__}", f"{e}; T={T} forces={js(F[0])}"[:250])
                        finally:
                            sim.close()
    return {"counters": counters, "violations": viol, "samples": []}


def task_termination(arg):
    counters = {"evaluations": 0, "nontrivial": 0}
    viol, seen, V = _adder(arg, "task_termination")
    worst = 0
    for seed in arg["seeds"]:
        for F in (np.full((3, 3), 1e300), np.array([[1e6, -1e6, 50.0], [-1e300, 1e300, 0.0], [1e-12, -50.0, 1.0]]), np.zeros((3, 3))):
            for T in (1.0, 5000.0):
                sim, atoms = make(F, 0.1, T, seed=seed)
                rounds = {"n": 0}
                gz = sim.get_zeta

                def counted(gz=gz, rounds=rounds):
                    rounds["n"] += 1
                    if rounds["n"] > 1000:
                        raise HarnessError("cap")
                    return gz()

                sim.get_zeta = counted
                before = atoms.positions.copy()
                try:
                    with np.errstate(all="ignore"):
                        sim.run(1)
                    counters["evaluations"] += 1
                    counters["nontrivial"] += 1 if rounds["n"] > 1 else 0
                    worst = max(worst, rounds["n"])
                    if not np.all(np.isfinite(atoms.positions)) or np.any(np.abs(atoms.positions - before) > 0.1 * (1 + 1e-9)):
                        V("C13/termination/huge-forces/bad-displacement", f"seed {seed} T={T}")
                except HarnessError:
                    V("C13/termination/more-than-1000-rounds", f"seed {seed} T={T} forces {js(F[0])}")
                except Exception as e:  # noqa: BLE001
                    V(f"C13/termination/exception:{type(e).__name__}", f"{e}"[:200])
                finally:
                    sim.close()
    return {"counters": counters, "violations": viol, "maxima": {"max_rounds": worst}, "samples": []}


def run(tier, seed):
    rep = Report("exploration")
    acc = Acc()
    for r in pmap(__name__, "task_density", [{"T": [T]} for T in (1.0, 300.0, 5000.0)] + [{"T": [300.0], "retemper": True}]):
        acc.add(r)
    for r in pmap(__name__, "task_step", [{"T": T, "stride": 3 if tier == "quick" else 1} for T in (1.0, 300.0, 5000.0)] + [{"T": 300.0, "stride": 5, "retemper": True}]):
        acc.add(r)
    seeds = list(range(32))
    for r in pmap(__name__, "task_termination", [{"seeds": seeds[i::8]} for i in range(8)]):
        acc.add(r)
    rep.violations = acc.violations
    rep.coverage = {
        "evaluations": acc.n("evaluations"),
        "distinct_nontrivial": acc.n("nontrivial"),
        "rule": "density: one evaluation = one zeta grid point (64) for one (T in {1,300,5000}) x (4 deltas incl. per-coordinate) x (15 force patterns over {0,+-1e-12,+-1e-3,+-1,+-50,+-1e6,+-1e300}, mixed signs), non-trivial = some coordinate with |gamma| >= 1e-9 (density clause applies); step: one evaluation = one real run(1) under prescribed generator answers (4 first-round patterns incl. rejecting rounds and extreme answers) x masses x 4 power forms, non-trivial = more than one sampling round; termination: real PCG64 seeds 0..31 with huge/mixed/zero forces",
        "max_sampling_rounds_seen_with_real_generator": acc.maxima.get("max_rounds"),
        "exhaustive": True,
        "samples": [{"forces_pattern": js(force_patterns()[3]), "delta": 0.1, "T": 300.0, "zeta_grid": "64 midpoints of (-1,1)"}],
    }
    rep.assumptions = ["the Bal-Neyts density is P(z) ~ (e^g - e^{g(2z-1)})/(e^g - e^-g) for z>0 and (e^{g(2z+1)} - e^-g)/(e^g - e^-g) for z<0, g = F delta / 2kT, evaluated with expm1; 'above rounding level' = |g| >= 1e-9, with tolerance 1e-7 + 1e-15/|g|", "uniform proposals on [-1,1] accepted with probability P(z) yield a density proportional to P"]
    return rep


def replay(data):
    f = {"task_density": task_density, "task_step": task_step, "task_termination": task_termination}[data["func"]]
    res = f(data["arg"])
    return {"signatures": sorted({v["signature"] for v in res["violations"]})}
