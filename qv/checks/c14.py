"""C14 - Hamiltonian proposals are reversible and correctly thermalised.

Grid enumeration on the real ``Verlet`` integrator (reversibility, order of the energy error),
on ``maxwell_boltzmann_distribution`` under prescribed normal draws, and exhaustive exploration
of real Hamiltonian trials (all normal-draw menu answers, check_move answers, verdicts, depth 2)
whose captured acceptance threshold must be exp(-dH/kT) with the kinetic energy of the freshly
drawn momenta.
"""

from __future__ import annotations

import itertools
import math

import numpy as np
from ase import units
from ase.atoms import Atoms

from qv import calcs
from qv.core import Chooser, Stats, explore, js
from qv.drive import execute
from qv.rngx import Policy, QuantileRNG
from qv.runner import Acc, Report, pmap

PID = "C14"


class Ctx:
    def __init__(self, atoms, rng=None, temperature=300.0):
        self.atoms, self.rng, self.temperature = atoms, rng, temperature


POTS = {
    "harmonic": lambda: calcs.Harmonic(k=1.0, centre=(3.0, 3.0, 3.0)),
    "quartic": lambda: calcs.Quartic(a=0.5, b=0.4, centre=(3.0, 3.0, 3.0)),
    "pairsoft": lambda: calcs.PairSoft(eps=0.5, s=1.2, k=0.6, centre=(3.0, 3.0, 3.0)),
}
try:
    from ase.calculators.lj import LennardJones

    POTS["lj3"] = lambda: LennardJones(sigma=1.0, epsilon=0.3, rc=4.0, smooth=True)
except Exception:  # noqa: BLE001
    pass


def start_atoms(pot, masses, offset, zsign):
    if pot == "lj3":
        pos = np.array([[3.0, 3.0, 3.0], [4.15, 3.0, 3.0], [3.5, 4.05, 3.1]]) + 0.03 * offset
        atoms = Atoms("Ar3", positions=pos, cell=[20] * 3, pbc=False)
    else:
        pos = np.array([[3.0, 3.0, 3.0], [3.4, 2.9, 3.2]]) + 0.15 * offset[:2]
        atoms = Atoms("Ar2", positions=pos, cell=[20] * 3, pbc=False)
    atoms.set_masses([masses] * len(atoms) if np.ndim(masses) == 0 else masses[: len(atoms)])
    kT = 0.05
    z = zsign * np.array([[1.0, -1.0, 1.0], [-1.0, 1.0, 1.0], [1.0, 1.0, -1.0]])[: len(atoms)]
    atoms.set_momenta(z * np.sqrt(atoms.get_masses() * kT)[:, None])
    atoms.calc = POTS[pot]()
    return atoms


def task_verlet(arg):
    from quansino.integrators.displacement import Verlet

    pot = arg["pot"]
    counters = {"evaluations": 0, "nontrivial": 0}
    viol, seen = [], {}

    def V(sig, what):
        seen[sig] = seen.get(sig, 0) + 1
        if seen[sig] <= 2:
            viol.append({"signature": sig, "what": what, "replay": {"check": PID, "func": "task_verlet", "arg": arg}})

    one_for_all = Verlet(dt=1.0, max_steps=1)  # one integrator object serving systems with different masses
    offsets = [np.array([[1.0, 0.0, 0.0], [0.0, -1.0, 0.5], [0.3, 0.3, -1.0]]), np.array([[-0.5, 1.0, 0.2], [1.0, 1.0, 1.0], [0.0, 0.0, 0.0]]), np.zeros((3, 3))]
    for masses, off, zs in itertools.product([1.0, 63.5, [1.0, 63.5, 12.0]], offsets, (1.0, -1.7)):
        # (a) reversibility
        for dt, steps, ac, cons in itertools.product(arg["dts"], arg["steps"], (True, False), (False, True)):
            atoms = start_atoms(pot, masses, off, zs)
            if cons:
                if ac or steps == 20:
                    continue  # with constraint application the frozen atom's momentum is projected out (C12's subject)
                from ase.constraints import FixAtoms

                # a constraint is present but the integrator is told not to apply it: plain dynamics
                atoms.set_constraint(FixAtoms(indices=[0]))
            x0, p0 = atoms.positions.copy(), atoms.get_momenta().copy()
            integ = Verlet(dt=dt, max_steps=steps, apply_constraints=ac)
            ctx = Ctx(atoms)
            integ.integrate(ctx)
            x1 = atoms.positions.copy()
            atoms.set_momenta(-atoms.get_momenta(), apply_constraint=False)
            integ.integrate(ctx)
            counters["evaluations"] += 1
            counters["nontrivial"] += 1
            moved = np.abs(x1 - x0).max()
            ex = np.abs(atoms.positions - x0).max() / max(1e-12, np.abs(x0).max())
            ep = np.abs(-atoms.get_momenta() - p0).max() / max(1e-12, np.abs(p0).max())
            where = f"pot={pot} masses={masses} dt={dt}fs steps={steps} apply_constraints={ac}" + (" (FixAtoms present)" if cons else "")
            if moved == 0:
                V("C14/verlet/does-not-move", where)
            if ex > 1e-9 or ep > 1e-9:
                V("C14/verlet/not-reversible", f"after integrate, negate, integrate: positions off by {ex:.3g}, momenta by {ep:.3g} (relative); {where}")
        # (a') the same with a bond-length constraint applied by the integrator (momenta start
        # perpendicular to the bond so that they satisfy the constraint)
        if pot != "lj3":
            from ase.constraints import FixBondLength

            for dt, steps in itertools.product(arg["dts"][:3], (1, 5)):
                atoms = start_atoms(pot, masses, off, zs)
                atoms.set_constraint(FixBondLength(0, 1))
                atoms.set_momenta(atoms.get_momenta())  # projected onto the constraint
                x0, p0 = atoms.positions.copy(), atoms.get_momenta().copy()
                integ = Verlet(dt=dt, max_steps=steps, apply_constraints=True)
                ctx = Ctx(atoms)
                integ.integrate(ctx)
                atoms.set_momenta(-atoms.get_momenta(), apply_constraint=False)
                integ.integrate(ctx)
                counters["evaluations"] += 1
                counters["nontrivial"] += 1
                ex = np.abs(atoms.positions - x0).max() / max(1e-12, np.abs(x0).max())
                ep = np.abs(-atoms.get_momenta() - p0).max() / max(1e-12, np.abs(p0).max())
                if ex > 1e-9 or ep > 1e-9:
                    V("C14/verlet/not-reversible/bond-length-constraint-applied", f"after integrate, negate, integrate: positions off by {ex:.3g}, momenta by {ep:.3g} (relative); pot={pot} masses={masses} dt={dt}fs steps={steps} FixBondLength(0,1) applied by the integrator")
        # (b) order of the energy error at fixed total time; the time step is either given to the
        # constructor or assigned to one integrator object afterwards (re-tuning the step)
        for dt, mode in itertools.product(arg["dts_order"], ("constructed", "dt-assigned-after-construction", "one-integrator-object-for-all-systems")):
            errs = []
            shared = Verlet(dt=3.0 * dt, max_steps=1, apply_constraints=(dt != arg["dts_order"][0]))
            for d, n in ((dt, arg["n_order"]), (dt / 2, 2 * arg["n_order"])):
                atoms = start_atoms(pot, masses, off, zs)
                e0 = atoms.get_total_energy()
                if mode == "constructed":
                    integ = Verlet(dt=d, max_steps=1, apply_constraints=(dt != arg["dts_order"][0]))
                else:
                    integ = shared if mode == "dt-assigned-after-construction" else one_for_all
                    integ.dt = d * units.fs
                ctx = Ctx(atoms)
                worst = 0.0
                for _ in range(n):
                    integ.integrate(ctx)
                    worst = max(worst, abs(atoms.get_total_energy() - e0))
                errs.append(worst)
            counters["evaluations"] += 1
            if errs[1] > 1e-12:
                counters["nontrivial"] += 1
                ratio = errs[0] / errs[1]
                if not 3.2 <= ratio <= 4.8:
                    V("C14/verlet/energy-error-not-second-order" + ("" if mode == "constructed" else "/" + mode), f"max |dE| over the trajectory: {errs[0]:.3g} at dt={dt}fs, {errs[1]:.3g} at dt/2 (ratio {ratio:.3f}); pot={pot} masses={masses}; time step {mode}")
    return {"counters": counters, "violations": viol, "samples": []}


def task_mb(arg):
    from quansino.utils.dynamics import maxwell_boltzmann_distribution

    counters = {"evaluations": 0, "nontrivial": 0}
    viol, seen = [], {}

    def V(sig, what):
        seen[sig] = seen.get(sig, 0) + 1
        if seen[sig] <= 2:
            viol.append({"signature": sig, "what": what, "replay": {"check": PID, "func": "task_mb", "arg": arg}})

    from scipy.special import ndtri

    qs = [0.02, 0.2, 0.5, 0.7, 0.93, 0.999]
    for T in (1.0, 300.0, 5000.0):
        for masses in ([1.0, 1.0, 1.0], [1.0, 63.5, 197.0]):
            for rot in range(len(qs)):
                q = [qs[(rot + j) % len(qs)] for j in range(9)]
                for forced, cons in ((False, None), (True, None), (True, "fixatoms")):
                    atoms = Atoms("Ar3", positions=[[0, 0, 0], [2, 0, 0], [0, 2, 1]], cell=[9] * 3)
                    atoms.set_masses(masses)
                    if cons:  # constraints remove degrees of freedom
                        from ase.constraints import FixAtoms

                        atoms.set_constraint(FixAtoms(indices=[1]))
                    ctx = Ctx(atoms, QuantileRNG(q + [0.5] * 9), T)
                    maxwell_boltzmann_distribution(ctx, forced=forced)
                    counters["evaluations"] += 1
                    counters["nontrivial"] += 1
                    z = ndtri(np.array(q)).reshape(3, 3)
                    kT = units.kB * T
                    want = z * np.sqrt(np.array(masses) * kT)[:, None]
                    p = atoms.get_momenta()
                    where = f"T={T} masses={masses} forced={forced} constraint={cons}"
                    if cons:
                        want = want.copy()
                        want[1] = 0.0
                    if not forced:
                        if not np.allclose(p, want, rtol=1e-12, atol=0):
                            V("C14/momenta/not-normal-times-sqrt(m kT)", f"momenta {js(p[0])} vs z*sqrt(m kT) {js(want[0])}; {where}")
                    else:
                        dof = atoms.get_number_of_degrees_of_freedom()
                        tk = 2 * atoms.get_kinetic_energy() / dof
                        if abs(tk - kT) > 1e-9 * kT:
                            V("C14/momenta/forced-temperature-off", f"2KE/dof = {tk!r}, kT = {kT!r}; {where}")
                        c = (p * want).sum() / math.sqrt((p * p).sum() * (want * want).sum())
                        if c < 1 - 1e-9:
                            V("C14/momenta/forced-not-a-rescaling", f"forced momenta are not proportional to the drawn ones (cos = {c}); {where}")
    return {"counters": counters, "violations": viol, "samples": []}


def task_accept(spec):
    """Real Hamiltonian trials: threshold == exp(-(H' - H_fresh)/kT)."""
    depth = spec["depth"]
    policy = Policy(normal_z=(-1.0, 0.6), product_limit=0, uniform_q=(0.3, 0.8), angular_q=None)
    counters = {"evaluations": 0, "nontrivial": 0, "executions": 0}
    viol, seen = [], {}
    st = Stats()
    kT = units.kB * spec["T"]

    def run(ch):
        from qv.checks.c03 import _late

        sysm, trials = execute(spec, ch, depth, policy, setup=_late(spec))
        masses = sysm.atoms.get_masses().copy()
        calc = sysm.calc_factory()
        op = sysm.entries["h"].operation
        integ = (float(op.dt), int(op.max_steps))
        ref_atoms = sysm.atoms.copy()
        sysm.close()
        return trials, masses, calc, integ, ref_atoms

    def reference_verlet(ref_atoms, calc, x, p, m, dt, n):
        a = ref_atoms.copy()
        a.calc = calc
        a.positions = x
        f = a.get_forces()
        x, p = x.copy(), p.copy()
        for _ in range(n):
            ph = p + 0.5 * f * dt
            x = x + ph / m[:, None] * dt
            a.positions = x
            f = a.get_forces()
            p = ph + 0.5 * f * dt
        return x, p

    for ch, (trials, masses, calc, integ, ref_atoms) in explore(run, stats=st):
        counters["executions"] += 1
        for t in trials:
            if t.error is not None:
                sig = f"C14/acceptance/exception:{t.error['type']}@{t.error['qwhere']}"
                seen[sig] = seen.get(sig, 0) + 1
                if seen[sig] <= 2:
                    viol.append({"signature": sig, "what": t.error["msg"], "replay": {"check": PID, "func": "task_accept", "arg": {**spec, "only": ch.choices}}})
                break
            if t.name != "h" or t.at_criteria is None:
                continue
            ac = t.at_criteria
            pts = [p for p in ch.trace if p.seg == t.seg]
            normals = [p for p in pts if p.kind == "normal"]
            vetoes = sum(1 for p in pts if p.kind == "user" and p.idx == 1)
            if not normals:
                continue
            z = np.asarray(normals[-1].label, dtype=float)
            p_fresh = z * np.sqrt(masses * kT)[:, None]
            k_fresh = float((p_fresh**2 / (2 * masses[:, None])).sum())
            from qv.snapshot import arr_key

            x0 = np.frombuffer(t.pre["arrays"]["positions"][2]).reshape(-1, 3)
            u0 = calc.energy_of(x0)
            u1 = calc.energy_of(ac["positions"])
            k1 = float((ac["momenta"] ** 2 / (2 * masses[:, None])).sum())
            logA = -((u1 + k1) - (u0 + k_fresh)) / kT
            thr = t.thresholds[-1]
            if ac["n"] == len(x0):
                xr, pr = reference_verlet(ref_atoms, calc, x0.copy(), p_fresh, masses, integ[0], integ[1])
                ex = np.abs(xr - ac["positions"]).max()
                ep = np.abs(pr - ac["momenta"]).max() / max(1e-12, np.abs(pr).max())
                if ex > 1e-9 or ep > 1e-9:
                    kind = "after-vetoed-attempt" if vetoes else "first-attempt"
                    sig = f"C14/acceptance/{kind}/proposal-is-not-the-trajectory-of-the-fresh-momenta"
                    seen[sig] = seen.get(sig, 0) + 1
                    if seen[sig] <= 2:
                        viol.append({"signature": sig, "what": f"the configuration presented to the criteria differs from a reference velocity-Verlet trajectory started from the pre-trial positions and the freshly drawn momenta (positions off by {ex:.3g}, momenta by {ep:.3g}); history {js([[x.name, x.verdict] for x in trials])}", "replay": {"check": PID, "func": "task_accept", "arg": {**spec, "only": ch.choices}}})
                    continue
            counters["evaluations"] += 1
            if 0 < thr < 1:
                counters["nontrivial"] += 1
            ok = thr >= 1.0 if logA >= 0 else (thr > 0 and abs(math.log(thr) - logA) <= 1e-9 * max(1.0, abs(logA))) or (thr == 0 and logA < -700)
            if not ok:
                kind = "after-vetoed-attempt" if vetoes else "first-attempt"
                sig = f"C14/acceptance/{kind}/threshold-not-exp(-dH/kT)-with-fresh-kinetic-energy"
                seen[sig] = seen.get(sig, 0) + 1
                if seen[sig] <= 2:
                    viol.append({"signature": sig, "what": f"captured threshold {thr!r} (log {math.log(thr) if thr > 0 else float('-inf'):.9g}), expected log A = {logA:.9g} with K_fresh={k_fresh:.6g}, K'={k1:.6g}, U={u0:.6g}, U'={u1:.6g}; history {js([[x.name, x.verdict] for x in trials])}", "replay": {"check": PID, "func": "task_accept", "arg": {**spec, "only": ch.choices}}})
    counters["transitions"] = st.points
    return {"counters": counters, "violations": viol, "samples": []}


def run(tier, seed):
    rep = Report("exploration")
    acc = Acc()
    dts = [0.25, 0.5, 1.0, 2.0]
    steps = [1, 5, 20]
    va = [{"pot": p, "dts": dts, "steps": steps, "dts_order": [0.25, 0.5] if tier == "quick" else [0.125, 0.25, 0.5], "n_order": 20} for p in POTS]
    for r in pmap(__name__, "task_verlet", va):
        acc.add(r)
    for r in pmap(__name__, "task_mb", [{}]):
        acc.add(r)
    d = 2 if tier == "quick" else 3
    specs = [
        dict(ens="HamiltonianCanonical", atoms="A2", table=[["h", "H"]], calc="harmonic", T=300.0, depth=d, check=True),
        dict(ens="HamiltonianCanonical", atoms="A3", table=[["h", "H1"], ["d", "D_ball"]], calc="quartic", T=500.0, depth=d, decos=["momenta"]),
        dict(ens="HamiltonianCanonical", atoms="A2", table=[["h", "H1"]], calc="pairsoft", T=200.0, depth=d + 1, check=True, late=["momenta"]),
        # odd number of momentum components: the two joint menu answers have different kinetic energies
        dict(ens="HamiltonianCanonical", atoms="A3", table=[["h", "H1"]], calc="harmonic", T=300.0, depth=d, check=True),
        dict(ens="HamiltonianCanonical", atoms="A1", table=[["h", "H"]], calc="quartic", T=400.0, depth=d + 1, check=True, decos=["momenta"]),
    ]
    for r in pmap(__name__, "task_accept", specs):
        acc.add(r)
    rep.violations = acc.violations
    rep.coverage = {
        "evaluations": acc.n("evaluations"),
        "distinct_nontrivial": acc.n("nontrivial"),
        "rule": "verlet: (potential in {harmonic, quartic, soft pair, 3-atom LJ}) x masses {1, 63.5, mixed} x 3 start geometries x 2 momentum patterns x dt {0.25,0.5,1,2} fs x steps {1,5,20} reversibility runs (also with a FixAtoms present but not applied, and with a bond-length constraint applied by the integrator) + energy-error-ratio runs (max |dE| over 20/40 steps at dt and dt/2; time step given to the constructor / assigned afterwards / one integrator object for all systems); momenta: 3 T x 2 mass sets x 6 quantile patterns x forced/unforced; acceptance: every execution (all normal-draw menu answers, check_move answers with max_attempts=2, verdicts) of real Hamiltonian trials to depth 2-3, one evaluation per trial that reached the criteria; non-trivial = threshold strictly inside (0,1) / energy error above rounding",
        "hamiltonian_executions": acc.n("executions"),
        "exhaustive": True,
        "samples": [{"pot": "quartic", "masses": 63.5, "dt_fs": 1.0, "steps": 20, "check": "integrate; p -> -p; integrate returns to start (1e-9)"}],
    }
    rep.assumptions = ["'all smooth potentials' is represented by four potentials; time steps are within the stability range of each", "momentum law is verified as the identity momenta == z * sqrt(m kT) for prescribed standard-normal answers z"]
    return rep


def replay(data):
    f = {"task_verlet": task_verlet, "task_mb": task_mb, "task_accept": task_accept}[data["func"]]
    res = f(data["arg"])
    return {"signatures": sorted({v["signature"] for v in res["violations"]})}
