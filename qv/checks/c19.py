"""C19 - reinsertion inverts deletion; molecule search partitions atoms by bonds.

Exhaustive over small inputs: every ordered index subset (size <= 3) of decorated atoms objects
with n <= 5 atoms; every placement of n <= 4(5) two-species atoms on small periodic lattices x
cutoffs (scalar, dict) x size filters x default arrays, against a union-find oracle over
minimum-image distances.
"""

from __future__ import annotations

import itertools

import numpy as np
from ase.atoms import Atoms

from qv.core import js
from qv.runner import Acc, Report, pmap
from qv.snapshot import atoms_diff, atoms_snapshot

PID = "C19"

DECOS = [(), ("tags",), ("momenta",), ("charges",), ("custom2d",), ("masses",), ("magmoms", "tags"), ("tags", "momenta", "charges", "custom2d", "masses")]


def make_atoms(n, decos):
    from qv.systems import decorate

    syms = ["Cu", "H", "O", "H", "Ar"][:n]
    pos = np.array([[0.1 + 1.3 * i, 0.7 * ((i * 3) % 4), 0.2 * i * i] for i in range(n)])
    atoms = Atoms(syms, positions=pos, cell=[8, 7, 6], pbc=True)
    decorate(atoms, decos)
    return atoms


def task_reinsert(arg):
    from quansino.utils.atoms import reinsert_atoms

    n = arg["n"]
    counters = {"cases": 0, "nontrivial": 0}
    viol, samples = [], []
    seen = {}
    for decos in DECOS:
        for k in range(1, min(3, n) + 1):
            for idx in itertools.permutations(range(n), k):
                counters["cases"] += 1
                atoms = make_atoms(n, decos)
                ref = atoms_snapshot(atoms, with_constraints=False)
                idx_l = list(idx)
                for form in ("list", "array"):
                    a = atoms.copy()
                    ix = idx_l if form == "list" else np.array(idx_l)
                    removed = a[ix]
                    del a[ix]
                    try:
                        reinsert_atoms(a, removed, ix)
                        d = atoms_diff(ref, atoms_snapshot(a, with_constraints=False))
                        err = None
                    except Exception as e:  # noqa: BLE001
                        d, err = None, f"{type(e).__name__}: {e}"
                    order = "sorted" if list(idx) == sorted(idx) else "unsorted"
                    if order == "unsorted" or decos:
                        counters["nontrivial"] += 1
                    if err or d:
                        clause = "exception" if err else "differs:" + ",".join(sorted({x.split(":")[0] + ":" + x.split(":")[-1] for x in d}))
                        sig = f"C19/reinsert/{order}/{clause}"
                        seen[sig] = seen.get(sig, 0) + 1
                        if seen[sig] <= 2:
                            viol.append({"signature": sig, "what": f"n={n} decorations={decos} indices={idx_l} ({form}): {err or d}", "replay": {"check": PID, "func": "task_reinsert", "arg": arg}})
                if len(samples) < 1 and k == 2 and decos and list(idx) != sorted(idx):
                    samples.append({"n": n, "decorations": decos, "indices": idx_l, "result": "restored bitwise"})
    return {"counters": counters, "violations": viol, "samples": samples}


class UF:
    def __init__(self, n):
        self.p = list(range(n))

    def find(self, i):
        while self.p[i] != i:
            self.p[i] = self.p[self.p[i]]
            i = self.p[i]
        return i

    def union(self, i, j):
        self.p[self.find(i)] = self.find(j)


def oracle_components(atoms, cutoff):
    """Union-find over minimum-image distances (all periodic images within the cutoff)."""
    n = len(atoms)
    uf = UF(n)
    cell = atoms.cell.array
    pbc = atoms.pbc
    syms = atoms.get_chemical_symbols()
    shifts = [np.array(s) for s in itertools.product(*[(-1, 0, 1) if pbc[d] else (0,) for d in range(3)])]
    for i in range(n):
        for j in range(i + 1, n):
            if isinstance(cutoff, dict):
                c = cutoff.get((syms[i], syms[j]), cutoff.get((syms[j], syms[i]), None))
                if c is None:
                    continue
            else:
                c = cutoff
            dmin = min(np.linalg.norm(atoms.positions[j] + s @ cell - atoms.positions[i]) for s in shifts)
            if dmin < c:
                uf.union(i, j)
    comps = {}
    for i in range(n):
        comps.setdefault(uf.find(i), []).append(i)
    return list(comps.values())


CUTOFFS = {
    "below": 0.9,
    "above": 1.1,
    "diag": 1.5,
    "dict": {("H", "H"): 1.1, ("H", "O"): 0.9, ("O", "O"): 1.5},
}
FILTERS = {"none": None, "1": 1, "2": 2, "(2,3)": (2, 3)}


def task_molecules(arg):
    from quansino.utils.atoms import search_molecules

    sites, n, cellv = arg["sites"], arg["n"], arg["cell"]
    counters = {"cases": 0, "nontrivial": 0}
    viol, samples = [], []
    seen = {}
    allp = list(itertools.combinations(range(len(sites)), n))
    for places in allp[arg.get("part", 0) :: arg.get("parts", 1)]:
        for species in itertools.product("HO", repeat=n):
            atoms = Atoms("".join(species), positions=[sites[p] for p in places], cell=cellv, pbc=True)
            for cname, cutoff in CUTOFFS.items():
                comps = oracle_components(atoms, cutoff)
                for fname, filt in FILTERS.items():
                    lo, hi = (0, n) if filt is None else (filt, filt) if isinstance(filt, int) else filt
                    for dname in ("none", "all-1", "negative-array"):
                        default = None if dname == "none" else np.full(n, -1) if dname == "all-1" else -np.arange(2, n + 2)
                        want_default = np.full(n, -1) if default is None else np.array(default)
                        counters["cases"] += 1
                        if len(comps) not in (1, n):
                            counters["nontrivial"] += 1
                        sig = None
                        try:
                            got = np.asarray(search_molecules(atoms, cutoff, required_size=filt, default_array=None if default is None else default.copy()))
                        except Exception as e:  # noqa: BLE001
                            sig, what = f"C19/molecules/default:{dname}/exception:{type(e).__name__}", f"{type(e).__name__}: {e}"
                        else:
                            if got.shape != (n,):
                                sig, what = f"C19/molecules/default:{dname}/shape", f"returned shape {got.shape}"
                            else:
                                admitted = [c for c in comps if lo <= len(c) <= hi]
                                inadm = [i for c in comps if not lo <= len(c) <= hi for i in c]
                                labs = []
                                for c in admitted:
                                    ls = {int(got[i]) for i in c}
                                    if len(ls) != 1 or min(ls) < 0:
                                        sig, what = f"C19/molecules/cutoff:{cname}/component-not-one-nonnegative-label", f"component {c} got labels {sorted(ls)}"
                                        break
                                    labs.append(ls.pop())
                                if sig is None and len(set(labs)) != len(labs):
                                    sig, what = f"C19/molecules/cutoff:{cname}/components-share-label", f"labels {labs} for components {admitted}"
                                if sig is None:
                                    for i in inadm:
                                        if got[i] != want_default[i]:
                                            sig, what = f"C19/molecules/filter:{fname}/default:{dname}/not-left-at-default", f"atom {i} outside admitted components got {got[i]}, default {want_default[i]}"
                                            break
                        if sig:
                            seen[sig] = seen.get(sig, 0) + 1
                            if seen[sig] <= 2:
                                viol.append({"signature": sig, "what": f"{what}; atoms {''.join(species)} at sites {places}, cutoff {cname}, size filter {fname}, default {dname}; oracle components {comps}", "replay": {"check": PID, "func": "task_molecules", "arg": arg}})
                        elif len(samples) < 1 and len(comps) == 2 and n >= 3 and dname == "none":
                            samples.append({"species": "".join(species), "sites": [sites[p] for p in places], "cutoff": cname, "filter": fname, "labels": js(got), "oracle_components": comps})
    return {"counters": counters, "violations": viol, "samples": samples}


def run(tier, seed):
    rep = Report("exploration")
    acc = Acc()
    for r in pmap(__name__, "task_reinsert", [{"n": n} for n in range(1, 6)]):
        acc.add(r)
    re_cases, re_nt = acc.n("cases"), acc.n("nontrivial")
    line = [[float(i), 0.0, 0.0] for i in range(5)]
    grid = [[float(i), float(j), 0.0] for i in range(3) for j in range(3)]
    args = []
    for n in (1, 2, 3, 4) + ((5,) if tier == "thorough" else ()):
        args.append({"sites": line, "n": n, "cell": [5.0, 6.0, 7.0]})
    for n in (1, 2, 3) + ((4,) if tier == "thorough" else ()):
        args.append({"sites": grid, "n": n, "cell": [3.0, 3.0, 7.0]})
    mol = Acc()
    args = [{**a, "part": i, "parts": 8 if a["n"] >= 3 else 1} for a in args for i in range(8 if a["n"] >= 3 else 1)]
    for r in pmap(__name__, "task_molecules", args):
        mol.add(r)
    rep.violations = acc.violations + mol.violations
    rep.coverage = {
        "evaluations": re_cases + mol.n("cases"),
        "distinct_nontrivial": re_nt + mol.n("nontrivial"),
        "rule": "reinsertion: every ordered index subset (size<=3, list and array form) x 8 decoration sets x n=1..5, non-trivial = unsorted indices or extra arrays; molecule search: every placement of n atoms (2 species) on a periodic 5-site line / 3x3 grid x 4 cutoffs x 4 size filters x 3 defaults, non-trivial = neither fully connected nor fully disconnected",
        "reinsertion_cases": re_cases,
        "molecule_search_cases": mol.n("cases"),
        "exhaustive": True,
        "samples": (acc.samples + mol.samples)[:4],
    }
    rep.assumptions = ["within-cutoff means minimum-image distance strictly below the cutoff (no lattice distance equals a cutoff)", "constraints are not part of C19's reinsertion statement (see C03)"]
    return rep


def replay(data):
    f = {"task_reinsert": task_reinsert, "task_molecules": task_molecules}[data["func"]]
    res = f(data["arg"])
    return {"signatures": sorted({v["signature"] for v in res["violations"]})}
