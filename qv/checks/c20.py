"""C20 - drivers use custom moves and criteria only through the documented protocol.

Bare user classes (no quansino base class) implementing exactly the documented protocol are
added with explicit criteria to every Monte Carlo driver; every attribute the package reads or
writes on them is logged.  All histories to depth 3 (bare move truthy/falsy, bare criteria
accept/reject - explorer-chosen - mixed with shipped displacement/cell/exchange moves) are
enumerated; oracles: access log within the protocol surface, routing of truthy/falsy results,
serialization with the simulation, one notification per accepted change of atom count / cell.
"""

from __future__ import annotations

import sys
import warnings

import numpy as np

from qv.core import Chooser, Stats, explore, js
from qv.rngx import ChoiceRNG, Policy, install
from qv.runner import Acc, Report, pmap
from qv.systems import build

PID = "C20"
ALLOWED = {"__call__", "evaluate", "on_atoms_changed", "on_cell_changed", "to_dict", "from_dict", "__class__", "__dict__", "__slots__", "__doc__"}
ACCESS: list = []


def _log(kind, name):
    f = sys._getframe(2)
    fn = f.f_code.co_filename
    if "/quansino/" in fn:
        ACCESS.append((kind, name, f"{fn.split('/quansino/')[-1]}:{f.f_code.co_name}"))


class BareMove:
    """Implements only the documented Move protocol; inherits from nothing in the package."""

    def __init__(self, tag="m", kind="shift"):
        object.__setattr__(self, "tag", tag)
        object.__setattr__(self, "kind", kind)
        object.__setattr__(self, "chooser", None)
        object.__setattr__(self, "notes", [])
        object.__setattr__(self, "calls", 0)

    def __getattribute__(self, name):
        _log("get", name)
        return object.__getattribute__(self, name)

    def __setattr__(self, name, value):
        _log("set", name)
        object.__setattr__(self, name, value)

    def __call__(self, context):
        g = object.__getattribute__
        object.__setattr__(self, "calls", g(self, "calls") + 1)
        ok = g(self, "chooser").pick("user", 2, None, ["truthy", "falsy"]) == 0
        if not ok:
            return 0
        atoms = context.atoms
        if g(self, "kind") == "none":
            return 0
        if g(self, "kind") == "cell":
            atoms.set_cell(atoms.cell.array * 1.01, scale_atoms=True)
        elif g(self, "kind") == "cell-tiny":  # a one-in-a-million strain (fine relaxation of the box)
            atoms.set_cell(atoms.cell.array * (1.0 + 1e-6), scale_atoms=True)
        elif g(self, "kind") == "swap":
            # a user exchange move replacing a 1-atom particle by a 2-atom one: the particle number is
            # unchanged, the atom count is not (bookkeeping as the shipped exchange moves do it)
            from ase.atoms import Atoms as _Atoms

            n = len(atoms)
            if n == 0:
                return 0
            context._deleted_indices = np.array([0])
            context._deleted_atoms += atoms[[0]]
            del atoms[[0]]
            atoms.extend(_Atoms("Ar2", positions=[[2.0, 2.0, 2.0], [2.0, 2.0, 3.0]]))
            context._added_indices = np.array([len(atoms) - 2, len(atoms) - 1])
            context._added_atoms += atoms[[len(atoms) - 2, len(atoms) - 1]]
        elif g(self, "kind") == "shear":  # volume-preserving change of the cell
            atoms.set_cell(np.array([[1.0, 0.03, 0.0], [0.0, 1.0, 0.0], [0.0, 0.0, 1.0]]) @ atoms.cell.array, scale_atoms=True)
        elif len(atoms):
            atoms.positions[0] += np.array([0.01, -0.02, 0.015])
        return "yes"  # truthy, not a bool

    def on_atoms_changed(self, added_indices, removed_indices):
        object.__getattribute__(self, "notes").append(("atoms", [int(i) for i in added_indices], [int(i) for i in removed_indices]))

    def on_cell_changed(self, new_cell):
        object.__getattribute__(self, "notes").append(("cell", np.array(new_cell).copy()))

    def to_dict(self):
        g = object.__getattribute__
        return {"name": "BareMove", "kwargs": {"tag": g(self, "tag"), "kind": g(self, "kind")}}

    @classmethod
    def from_dict(cls, data):
        return cls(**data.get("kwargs", {}))


class ValueMove(BareMove):
    """A user move with value semantics: all instances compare equal and none is hashable."""

    def __eq__(self, other):
        return isinstance(other, ValueMove)

    __hash__ = None


class BareCriteria:
    def __init__(self, tag="c"):
        object.__setattr__(self, "tag", tag)
        object.__setattr__(self, "chooser", None)
        object.__setattr__(self, "calls", 0)

    def __getattribute__(self, name):
        _log("get", name)
        return object.__getattribute__(self, name)

    def __setattr__(self, name, value):
        _log("set", name)
        object.__setattr__(self, name, value)

    def evaluate(self, context):
        g = object.__getattribute__
        object.__setattr__(self, "calls", g(self, "calls") + 1)
        return g(self, "chooser").pick("verdict", 2, None, ["accept", "reject"]) == 0

    def to_dict(self):
        return {"name": "BareCriteria", "kwargs": {"tag": object.__getattribute__(self, "tag")}}

    @classmethod
    def from_dict(cls, data):
        return cls(**data.get("kwargs", {}))


def specs(tier):
    d = 2 if tier == "quick" else 3
    out = []

    def add(ens, table, bare_kind="shift", atoms="A2", **kw):
        out.append(dict(ens=ens, atoms=atoms, table=table, bare_kind=bare_kind, depth=(kw.pop("depth", d) if tier == "quick" else (kw.pop("depth", None), 3)[1]), cap=None if tier == "quick" else 100_000, calc=kw.pop("calc", "zero"), **kw))

    add("MonteCarlo", [])
    add("Canonical", [])
    add("Canonical", [["d", "D_ball"]])
    add("HamiltonianCanonical", [["h", "H1"]], calc="harmonic")
    add("Isobaric", [["c", "C_iso"]])
    add("Isobaric", [], bare_kind="cell")
    add("Isotension", [["c", "C_aniso"], ["d", "D_box"]])
    add("Isotension", [], bare_kind="cell")
    add("GrandCanonical", [["e", "E_trans"]], depth=3)
    add("GrandCanonical", [["e", "E_trans"], ["d", "D_ball"]])
    # volume-preserving cell changes, the same user object under two names, several cycles per step
    add("Isobaric", [], bare_kind="shear")
    add("Isobaric", [], bare_kind="cell-tiny")
    add("Isotension", [], bare_kind="cell-tiny")
    add("Isotension", [["s", "C_shape"]], bare_kind="shear")
    add("GrandCanonical", [["e", "E_trans"]], twice=True)
    add("GrandCanonical", [], in_composite="E")  # the user move sits inside a shipped composite with an exchange move
    add("Isobaric", [], in_composite="C")
    add("GrandCanonical", [], bare_kind="swap")
    add("Isobaric", [], bare_kind="cell", value_moves=True)
    add("Isobaric", [], bare_kind="cell", value_moves="composite", in_composite="V")
    add("GrandCanonical", [], bare_kind="swap", value_moves="composite", in_composite="V")
    add("GrandCanonical", [["e", "E_trans"]], value_moves=True)
    add("Canonical", [["d", "D_ball"]], max_cycles=2)
    add("GrandCanonical", [["e", "E_trans"]], max_cycles=2)
    add("Isobaric", [["c", "C_iso"]], max_cycles=3, depth=1)
    return out


def make(spec, ch):
    from ase.atoms import Atoms

    from qv import calcs

    if spec["ens"] == "MonteCarlo":
        from quansino.mc.core import MonteCarlo

        atoms = Atoms("Ar2", positions=[[1, 1.2, 0.9], [3.1, 2.2, 4.0]], cell=[6] * 3, pbc=True)
        atoms.calc = calcs.Zero()
        with warnings.catch_warnings():
            warnings.simplefilter("ignore")
            mc = MonteCarlo(atoms, max_cycles=1, seed=1)

        class S:
            pass

        sysm = S()
        sysm.mc, sysm.atoms, sysm.entries, sysm.leaves = mc, atoms, {}, []
        sysm.close = mc.close
    else:
        sysm = build({k: v for k, v in spec.items() if k not in ("bare_kind", "depth", "twice", "cap", "in_composite", "value_moves")})
    mc = sysm.mc
    install(mc, ChoiceRNG(ch, Policy(uniform_q=(0.3, 0.8), angular_q=None, product_limit=0, branch_calls=0)))
    cls = ValueMove if spec.get("value_moves") else BareMove
    bm, bc = cls("user-move", spec["bare_kind"]), BareCriteria("user-criteria")
    object.__setattr__(bm, "chooser", ch)
    object.__setattr__(bc, "chooser", ch)
    if spec.get("in_composite"):
        from quansino.moves.cell import CellMove
        from quansino.moves.composite import CompositeMove
        from quansino.moves.exchange import ExchangeMove
        from quansino.operations.cell import ShapeDeformation

        if spec["in_composite"] == "V":  # two distinct user moves that compare equal, inside one shipped composite
            partner = ValueMove("user-move-2", "none")
            object.__setattr__(partner, "chooser", ch)
            sysm.other = partner
        else:
            partner = ExchangeMove(np.arange(len(sysm.atoms))) if spec["in_composite"] == "E" else CellMove(ShapeDeformation(0.04))
        mc.add_move(CompositeMove([bm, partner]), criteria=bc, name="bare")
    else:
        mc.add_move(bm, criteria=bc, name="bare")
    if spec.get("value_moves") is True:  # a second, distinct object that compares equal to the first
        other = ValueMove("user-move-2", "none")
        object.__setattr__(other, "chooser", ch)
        mc.add_move(other, criteria=bc, name="bare-other")
        sysm.other = other
    if spec.get("twice"):  # the same user object registered a second time (other name and cadence)
        mc.add_move(bm, criteria=bc, name="bare-again", interval=2)
    crits = {}
    for name, st in mc.moves.items():
        if not name.startswith("bare"):  # shipped moves judged by a bare user criteria as well
            c = BareCriteria(f"crit-{name}")
            object.__setattr__(c, "chooser", ch)
            st.criteria = c
            crits[name] = c
    return sysm, bm, bc, crits


def task(spec):
    depth = spec["depth"]
    counters = {"executions": 0, "trials": 0, "nontrivial": 0}
    viol, seen = [], {}
    outcomes = set()
    st = Stats()
    ens = spec["ens"]

    def V(sig, what, ch):
        seen[sig] = seen.get(sig, 0) + 1
        if seen[sig] <= 2:
            viol.append({"signature": sig, "what": what, "replay": {"check": PID, "func": "task", "arg": {**{k: v for k, v in spec.items() if k != "only"}, "only": ch.choices}}})

    if spec.get("only") is None and depth > 1 and spec.get("cap"):
        from qv.core import plan_depth

        def _mk(d):
            def r(ch):
                sysm, bm, bc, crits = make(spec, ch)
                for step in sysm.mc.irun(d):
                    for _ in step:
                        pass
                sysm.close()

            return r

        depth, _e1 = plan_depth(_mk, depth, cap=spec["cap"], floor=1)

    def run(ch):
        del ACCESS[:]
        sysm, bm, bc, crits = make(spec, ch)
        mc, atoms = sysm.mc, sysm.atoms
        atoms.set_array("uid", np.arange(1, len(atoms) + 1))
        records = []
        err = None
        try:
            for step in mc.irun(depth):
                for name in step:
                    if records and records[-1][2] is None:
                        records[-1][2] = _post(mc, atoms, bm, bc)
                    pre = {"n": len(atoms), "uid": atoms.arrays["uid"].copy(), "cell": atoms.cell.array.copy(), "notes": len(object.__getattribute__(bm, "notes")), "mcalls": object.__getattribute__(bm, "calls"), "ccalls": object.__getattribute__(bc, "calls")}
                    records.append([str(name), pre, None])
                if records and records[-1][2] is None:
                    records[-1][2] = _post(mc, atoms, bm, bc)
        except Exception as e:  # noqa: BLE001
            from qv.core import HarnessError

            if isinstance(e, HarnessError):
                raise
            import traceback

            tb = traceback.extract_tb(e.__traceback__)
            where = next((f"{fr.filename.split('/quansino/')[-1]}:{fr.name}" for fr in reversed(tb) if "/quansino/" in fr.filename), "")
            err = (type(e).__name__, str(e)[:200], where)
        # serialization with the simulation
        ser = None
        if err is None:
            try:
                from quansino.registry import register_class

                register_class(BareMove, "BareMove")
                register_class(BareCriteria, "BareCriteria")
                data = mc.to_dict()
                md = data["moves"]["bare"]["kwargs"]["move"]
                if spec.get("in_composite"):
                    md = md["kwargs"]["moves"][0]
                d_ok = md == bm.to_dict() and data["moves"]["bare"]["kwargs"]["criteria"] == bc.to_dict()
                mc2 = type(mc).from_dict(data)
                m2 = mc2.moves["bare"].move
                if spec.get("in_composite"):
                    m2 = m2.moves[0]
                r_ok = type(m2) is BareMove and type(mc2.moves["bare"].criteria) is BareCriteria and object.__getattribute__(m2, "kind") == spec["bare_kind"]
                mc2.close()
                ser = (d_ok, r_ok, None)
            except Exception as e:  # noqa: BLE001
                ser = (False, False, f"{type(e).__name__}: {e}"[:200])
        access = list(ACCESS)
        other_notes = list(object.__getattribute__(sysm.other, "notes")) if hasattr(sysm, "other") else None
        sysm.close()
        return records, err, ser, access, list(object.__getattribute__(bm, "notes")), other_notes

    only = spec.get("only")
    if only is not None:
        c = Chooser(only)
        gen = [(c, run(c))]
    else:
        gen = explore(run, stats=st)
    for ch, (records, err, ser, access, notes, other_notes) in gen:
        counters["executions"] += 1
        if other_notes is not None and not err:
            rel = lambda ns: [n for n in ns if n[0] == "cell" or n[1] or n[2]]  # noqa: E731
            if len(rel(other_notes)) != len(rel(notes)):
                V(f"C20/{ens}/equal-comparing-user-moves-not-both-notified", f"two distinct user moves that compare equal received {len(rel(notes))} and {len(rel(other_notes))} change notifications", ch)
        if err:
            V(f"C20/{ens}/exception:{err[0]}@{err[2]}", f"{err[1]}; table bare+{[e[1] for e in spec['table']]}", ch)
            continue
        bad = sorted({(k, n, w) for k, n, w in access if n not in ALLOWED})
        if bad:
            k, n, w = bad[0]
            V(f"C20/{ens}/attribute-outside-protocol:{k}:{n}@{w}", f"the package {k}s attribute {n!r} of a user object in {w} ({len(bad)} distinct accesses outside the protocol)", ch)
            continue
        if ser and ser[2]:
            V(f"C20/{ens}/serialization/exception", ser[2], ch)
        elif ser and not ser[0]:
            V(f"C20/{ens}/serialization/user-dictionaries-missing", "to_dict() of the simulation does not carry the user objects' dictionaries", ch)
        elif ser and not ser[1]:
            V(f"C20/{ens}/serialization/not-rebuilt", "from_dict did not rebuild the registered user classes", ch)
        ni = 0
        for name, pre, post in records:
            counters["trials"] += 1
            if post is None:
                continue
            verdict = post["verdict"]
            if name in ("bare", "bare-again"):
                counters["nontrivial"] += 1
                called = post["mcalls"] - pre["mcalls"]
                consulted = post["ccalls"] - pre["ccalls"]
                pts = None
                if called != 1:
                    V(f"C20/{ens}/bare-move-not-executed-once", f"move called {called} times in its trial", ch)
                truthy = consulted > 0 or verdict is not None
                outcomes.add((ens, "bare", repr(verdict)))
                if spec.get("in_composite"):
                    pass  # the composite's truthiness is any(element results): routing is judged on plain entries
                elif verdict is None and consulted != 0:
                    V(f"C20/{ens}/falsy-result-sent-to-criteria", "trial recorded as not attempted but the criteria was consulted", ch)
                if not spec.get("in_composite") and verdict is not None and consulted != 1:
                    V(f"C20/{ens}/truthy-result-criteria-consulted-{consulted}-times", f"verdict {verdict}", ch)
            else:
                outcomes.add((ens, name, repr(verdict)))
            # notifications delivered to the bare move during this trial
            new = notes[pre["notes"] : post["notes"]]
            count_changed = post["n"] != pre["n"] and verdict is True
            cell_changed = verdict is True and not np.array_equal(post["cell"], pre["cell"])
            atom_notes = [n for n in new if n[0] == "atoms" and (n[1] or n[2])]
            cell_notes = [n for n in new if n[0] == "cell"]
            if count_changed:
                added = [int(i) for i in np.flatnonzero(post["uid"] == 0)]  # new atoms carry a zero marker until the step ends
                removed = [int(i) for i in np.flatnonzero(~np.isin(pre["uid"], post["uid"]))]
                if len(atom_notes) != 1:
                    V(f"C20/{ens}/atom-count-change-notified-{len(atom_notes)}-times", f"accepted {name} changed the atom count {pre['n']}->{post['n']}", ch)
                elif atom_notes[0][1] != added or atom_notes[0][2] != removed:
                    V(f"C20/{ens}/atom-count-notification-wrong-indices", f"notified added={atom_notes[0][1]} removed={atom_notes[0][2]}, expected added={added} removed={removed}", ch)
            elif atom_notes:
                V(f"C20/{ens}/spurious-atom-count-notification", f"trial {name} verdict {verdict}: {atom_notes}", ch)
            # a cell notification carries the cell itself, so a repeated or unprompted one is harmless
            # as long as it names the cell the atoms really have after the trial
            if cell_changed and not cell_notes:
                V(f"C20/{ens}/cell-change-notified-0-times", f"accepted {name} changed the cell; the user move received no on_cell_changed call", ch)
            elif cell_notes and not np.allclose(cell_notes[-1][1], post["cell"], atol=0, rtol=0):
                V(f"C20/{ens}/cell-notification-wrong-cell", f"trial {name} verdict {verdict}: the last notified cell is not the cell of the atoms after the trial", ch)
    counters["transitions"] = st.points
    return {"counters": counters, "violations": viol, "sets": {"outcomes": [":".join(o) for o in outcomes]}, "samples": []}


_UID = [1000]


def _post(mc, atoms, bm, bc):
    snap_uid = atoms.arrays["uid"].copy()
    z = np.flatnonzero(atoms.arrays["uid"] == 0)
    if len(z):  # fresh markers right after the trial (several trials may share a step)
        atoms.arrays["uid"][z] = np.arange(_UID[0], _UID[0] + len(z))
        _UID[0] += len(z)
    return {"n": len(atoms), "uid": snap_uid, "cell": atoms.cell.array.copy(), "notes": len(object.__getattribute__(bm, "notes")), "mcalls": object.__getattribute__(bm, "calls"), "ccalls": object.__getattribute__(bc, "calls"), "verdict": mc.move_history[-1][1] if mc.move_history else "none"}


def run(tier, seed):
    rep = Report("model_checking")
    acc = Acc()
    sp = specs(tier)
    for r in pmap(__name__, "task", sp):
        acc.add(r)
    rep.violations = acc.violations
    rep.coverage = {
        "states": len(acc.sets.get("outcomes", ())) + acc.n("trials"),
        "transitions": acc.n("transitions"),
        "traces_validated_against_impl": acc.n("executions"),
        "executions": acc.n("executions"),
        "trials": acc.n("trials"),
        "bare_move_trials": acc.n("nontrivial"),
        "distinct_outcomes": sorted(acc.sets.get("outcomes", ())),
        "drivers": sorted({s["ens"] for s in sp}),
        "bound": "all histories to depth 2 (quick; 3 for the grand-canonical exchange table) / 3 (thorough): scheduled move, bare move truthy/falsy, every criteria verdict (all criteria are bare user objects), particle choices; one proposal value per draw",
        "exhaustive": True,
        "samples": [{"driver": "GrandCanonical", "table": ["bare (shift)", "E_trans"], "allowed_surface": sorted(ALLOWED)}],
    }
    rep.assumptions = ["attribute accesses are attributed to the package when the calling frame's file is under quansino/", "implicit special-method calls (move(context)) do not pass through __getattribute__ and are protocol calls by construction"]
    return rep


def replay(data):
    res = task(data["arg"])
    return {"signatures": sorted({v["signature"] for v in res["violations"]})}
