"""qv: exhaustive exploration of quansino under controlled environments (see /verif/DESIGN.md)."""
