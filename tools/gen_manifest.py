#!/venv/bin/python
"""Generate MANIFEST.json from the table below (one entry per claimed property)."""
import json
from pathlib import Path

ROOT = Path(__file__).resolve().parent.parent
ALL = [f"C{i:02d}" for i in range(1, 21)]

CHECKS = {
    "C03": dict(
        category="model_checking",
        text="Every accept/reject/fail history (depth 2 quick, 3-4 thorough) of the real run loop is enumerated for 29+ closed systems (all ensembles x move tables incl. + and * composites x per-atom decorations x constraints) under a choice-point generator; after every rejected or failed trial the atoms are compared bitwise with the pre-trial snapshot, the named bookkeeping is checked, and the subtree of behaviours after the abandoned trial is compared with the subtree from the state before it (differential futures).",
        design_ref="4-C03",
        note="Trusted: ASE Atoms/constraints, harness calculators, numpy. Menus under-approximate continuous draws (2 joint values for the first draw of a trial); atom counts <= 5; depth <= 4.",
        technique="stateless exhaustive exploration of the implementation (choice-point generator, prefix replay DFS) with snapshot and differential-futures oracles",
    ),
    "C05": dict(
        category="model_checking",
        text="All accept/reject/fail histories (depth 3 quick, 4 thorough; 2-3 for composites) of real GrandCanonical runs over 20+ move tables (several label-bearing moves, + and * composites, the same object under two names, atomic/molecular species, unsorted/non-contiguous/negative labelings, default_label in {None,0,3,-1}) are enumerated; after every trial a particle reference model (per-atom marker array) is compared with every (sub)move's labels, the particle counter and the exchange template.",
        design_ref="4-C05",
        note="Trusted: ASE extend/delete semantics (new atoms get zero in a custom array), harness criteria implementing only the documented protocol. One proposal value per draw; <= 5 atoms at start.",
        technique="stateless exhaustive exploration of the implementation against a particle-id reference model compared after every trial",
    ),
    "C04": dict(
        category="model_checking",
        text="The C03 history exploration (all accept/reject/fail histories, depth 2 quick / 3-5 thorough) crossed with calculator caching styles (caching ASE Calculator, stateless non-Calculator object, per-atom-state harness calculator, ASE LennardJones, ASE EMT) and a real logger attached: after every trial a side-effect-free probe compares the energy the calculator would report and context.last_potential_energy with a from-scratch evaluation by an independent instance on atoms.copy(), the remembered positions/cell with the current ones, counts evaluations against trials that reached a criteria, and forces one further evaluation at the end of every history.",
        design_ref="4-C04",
        note="Trusted: ASE Calculator.check_state/results semantics (the probe reads them instead of calling get_potential_energy, so it cannot repair a stale cache), harness calculators.",
        technique="stateless exhaustive exploration of the implementation with an independent-recomputation oracle and an evaluation counter",
    ),
    "C09": dict(
        category="model_checking",
        text="For every move table of <= 3 moves over small alphabets of interval/weight/minimum count, cycles 1-4 and step numbers 0-6, every generator answer inside the real scheduling code (driven through MonteCarlo.step()) is enumerated, yielding the exact probability of every name sequence; it must agree to 1e-12 with a reference distribution (forced occupants in uniformly random distinct slots, free slots i.i.d. by weight among due moves, nothing when no move is due). add_move's over-commit refusal is enumerated over the same alphabet.",
        design_ref="4-C09",
        note="Trusted: the choice-point generator reproduces numpy's Generator.choice law (with/without replacement, weights). Tables outside the stated preconditions are used only for the refusal clause.",
        technique="exhaustive enumeration of generator answers in the real scheduler, exact distribution compared with a reference model",
    ),
    "C17": dict(
        category="model_checking",
        text="Every expression tree with <= 4 leaf nodes over 5 move kinds (displacement, exchange, cell, generic, Hamiltonian) and over 4 operation kinds, with binary + in every parenthesisation and '* n' (n in 1..3) on any one node, is built with the real operators and compared bottom-up, node by node, with a flatten-and-classify reference model (identity, order and multiplicity of elementary objects; specialised vs plain composite class). Invalid multipliers must raise; plain composites of probe moves are called with every vector of scripted results (<= 4 elements, left and right nesting).",
        design_ref="4-C17",
        note="Bounded size: 4 leaf nodes, one multiplication per tree. n * composite (left multiplication) is not part of the statement and is not demanded.",
        technique="exhaustive enumeration of expression trees evaluated on the implementation against a reference model",
    ),
    "C19": dict(
        category="exploration",
        text="Exhaustive over small inputs: delete + reinsert_atoms for every ordered index subset (size <= 3, list and array form) of atoms objects with 1-5 atoms and 8 sets of per-atom arrays, compared bitwise (names, dtypes, bytes, order) with a copy; search_molecules for every placement of 1-4(5) two-species atoms on a periodic 5-site line and 3x3 grid x 4 cutoffs (scalar below/above spacing, diagonal, per-pair dict) x 4 size filters x 3 default arrays, against a union-find oracle over minimum-image distances.",
        design_ref="4-C19",
        note="Trusted: ASE neighbor_list is what the code uses; the oracle is independent (explicit image enumeration). Lattice distances never equal a cutoff.",
        technique="exhaustive enumeration of small inputs on the implementation against bitwise-copy and union-find oracles",
    ),
    "C11": dict(
        category="model_checking",
        text="Every label array of length 0-4 (thorough 0-5) over {-1,0,1,2,5} x operations {Box, Ball, Translation, Rotation} x {random, every pre-selected} target, with every answer of the particle choice enumerated on the real DisplacementMove: moved atoms == atoms of the selected label, displacement == the single recorded operation result (common vector / rigid), negative labels never move, uniform choice over eligible labels, failure changes nothing. Composites D*n and D+...+D (n=1..3): every choice sequence; no particle twice, moved == min(n, eligible), report equals what positions show.",
        design_ref="4-C11",
        note="One proposal value per continuous draw (the statement is about which atoms move). Atoms <= 5, unconstrained.",
        technique="exhaustive enumeration of label arrays, particle-choice and geometric-check answers, one- and two-call histories on one move object and composite plans on the implementation, with set/shape oracles",
    ),
    "C02": dict(
        category="exploration",
        text="Every shipped criteria is evaluated on directly built contexts over a grid of temperatures (1e-3..1e5 K), energy differences (0..+-1e6 eV, |dE|/kT up to 1e13), reference/trial cells (cubic, orthorhombic, triclinic x isotropic, shear, general deformations), atom counts, pressures, external stresses, chemical potentials, species masses, volumes and particle numbers. The threshold the code compares its uniform with is captured and compared in log space with the textbook formula from independent constants; the boolean decision is re-evaluated with scripted uniforms 0, t-ulp, t, t+ulp, 1-2^-53 around the code's own threshold. Parameter changes on the simulation object (every documented setter) are explored as choice points of real simulations (sequences of length 2-3).",
        design_ref="4-C02",
        note="Exhaustive over the grid only. The isotension strain measure is not pinned by the property: the check uses the strain the criteria exposes and requires it to vanish for an unchanged cell; the hydrostatic clause (identical to isobaric) is checked on every cell pair.",
        technique="exhaustive grid enumeration of the decision function with threshold capture and scripted boundary uniforms; parameter-change sequences and real trials (all proposal, geometric-check and verdict answers to depth 2-3) explored as choice points and judged from the harness's own particle count and a time-reversed reference trajectory",
    ),
    "C10": dict(
        category="exploration",
        text="Product grids of generator answers (K equal-probability quantile midpoints per draw, plus the extreme answers lo and the largest float below hi) are fed to every shipped operation (Box, Ball, Sphere, Translation, Rotation, TranslationRotation, composites, Isotropic/Anisotropic/Shape deformation) x step sizes x cubic/triclinic cells x groups of 1-4 atoms with mixed masses x all 512 masks. On every grid point: bounds, rigidity, centre of mass, centroid at the drawn fractional point, sum of parts, scalar x identity, det = 1, symmetric positive definite, identity in masked-out components. Over each inversion-closed grid the multiset of results must be closed under inversion (-d, R^T, F^-1) with equal multiplicity.",
        design_ref="4-C10",
        note="Grid quadrature: values between grid points are not explored. The operations are assumed to obtain randomness through uniform draws consumed in call order (QuantileRNG).",
        technique="exhaustive product-grid enumeration of generator answers on the implementation with geometric invariants and an inversion-closure multiset oracle",
    ),
    "C15": dict(
        category="model_checking",
        text="Every sequence of <= 3 run calls with lengths in {0,1,2,3} and every assignment of run/srun/irun(fully iterated) to the calls is executed on real Canonical, GrandCanonical and ForceBias simulations (real PCG64, fixed seeds) carrying six recording observers (intervals 1,2,3,-1,-2,-4), a logger and a trajectory. Each history is compared (a) with a reference model of the observer schedule, header and per-call step counts and (b) differentially - atoms bitwise, step counter, log text, trajectory text, observer call logs - with a single run(sum). Variants: observers attached again under their own names, and replaced by new objects under their own names, between two run calls.",
        design_ref="4-C15",
        note="Observers are independent, so all intervals are attached at once. ForceBias has no srun. FixCom is not combined with the trajectory observer (ASE's extxyz writer fails on it).",
        technique="exhaustive enumeration of run-splitting histories on the implementation against a schedule model and a single-run differential oracle",
    ),
    "C16": dict(
        category="fault_enumeration",
        text="The logger, trajectory and restart observers of real simulations write through a proxy around real files ('a' and 'w' mode) that logs every write/flush/seek/truncate/close and records what an independent reader sees on disk after each one. Every grow/shrink history of a GrandCanonical run with explorer-chosen verdicts (depth 3 quick / 4 thorough) plus Canonical and ForceBias runs are executed; at every crash point (every operation, plus line-granular torn prefixes of the bytes it made visible) completed log lines/frames must survive as a prefix and the restart file must load to a saved state; after every completed observer call the log must hold header + one flushed line per call, the trajectory one parseable extended-XYZ frame per call with earlier bytes untouched, the restart file exactly one JSON document of the latest state. A field function failing during logger call k (k = 0..3, three field positions, both modes, Canonical and ForceBias) with the run started again on the same object must leave exactly one header and one complete row per completed call.",
        design_ref="4-C16",
        note="Crash = process death between file-object operations (no fsync/power-loss model). ForceBias runs without a restart file here (C07 covers that it cannot be written).",
        technique="exhaustive crash-point enumeration over every file operation of every enumerated history, on the implementation's real write path",
    ),
    "C08": dict(
        category="exploration",
        text="For every public module of the package (41; thorough adds every ordered pair of top-level sub-packages) a fresh interpreter imports that module first, then the rest of the package, then round-trips (to_dict -> ASE JSON -> class looked up by registered name -> from_dict -> to_dict) every concrete serializable class found by pkgutil/inspect, with each constructor parameter set to a non-default value one at a time and all together (masks, nested composites, integrator settings, max_attempts, default_label), comparing type, every constructor parameter / documented attribute, and the re-serialised dictionary; every Monte Carlo driver with all settings non-default is round-tripped through to_dict and through the restart file after two real steps.",
        design_ref="4-C08",
        note="Parameter alphabet is name-driven (reported: parameters without an alphabet entry). Callables and one-shot fields excepted. Base*/stub classes are not 'concrete'. Every object is rebuilt a second time from the same loaded dictionary (the dictionary must not be consumed or rewritten).",
        technique="exhaustive enumeration of (first-imported module) x (class) x (non-default and boundary parameter values, tunables set after construction) in fresh interpreters running the implementation's own serialization code",
    ),
    "C07": dict(
        category="fault_enumeration",
        text="For 20 configurations x 2-3 seeds (Canonical, HamiltonianCanonical, Isobaric, Isotension, GrandCanonical x Ball/Box/Sphere/Translation/Rotation/TranslationRotation, composite operation, masked Anisotropic/Shape/Isotropic deformations, D*2, D+D, D+E, E*2, molecular exchange, Verlet) an uninterrupted run of n steps (6 quick, 10 thorough) writes its restart file into a stream captured after every observer call; for EVERY k in 0..n the captured bytes are loaded the documented way (read_json, Cls.from_dict, fresh calculator) and every remaining step is compared with the uninterrupted run: atoms bitwise, reference energy, accept/reject history, labels, particle counter, generator state, step counter. ForceBias/AdaptiveForceBias: the restart file must be writable.",
        design_ref="4-C07",
        note="Real PCG64, fixed seeds. Calculators are re-attached (not serialized), as documented.",
        technique="exhaustive restart-point enumeration (every k of every run) on the implementation, differential against the uninterrupted run",
    ),
    "C06": dict(
        category="exploration",
        text="Configuration alphabet enumerated completely: 7 drivers (Canonical, HamiltonianCanonical, Isobaric, Isotension, GrandCanonical, ForceBias, AdaptiveForceBias) x 12 move tables x seeds {0,1,2,42,2^32-1,2^32,2^63,2^64-1,f(VERIF_SEED)} x global-generator states {untouched, reseeded differently before each run, consumed between runs}: two simulations in one process, 5 steps, compared bitwise after every step (atoms, move history) and in log text; the seed used must be the seed given; different seeds must give different trajectories; draws from numpy's/Python's global generators made from quansino code while a simulation runs are trapped with their call site; two replicas rebuilt from one to_dict() dictionary, the second after the original simulation has moved on, must agree bitwise.",
        design_ref="4-C06",
        note="PCG64's quality is trusted. Names bound at import time (from numpy.random import ...) escape the monitor and are covered by the run-twice comparison only.",
        technique="exhaustive enumeration of a finite alphabet (configuration x seed incl. numpy scalars x process state: global generators, re-tuned earlier simulation, shared criteria objects, PYTHONHASHSEED of fresh interpreters) on the implementation, run-twice bitwise differential plus global-draw monitor",
    ),
    "C18": dict(
        category="exploration",
        text="Grid enumeration through the real AdaptiveForceBias.update_delta(): 4 (min,max) ranges (incl. min == max and min == 0) x 3 reference variances x both update functions x 6 routes (committee forces / committee energies in calc.results, no committee data for both schemes, scalar and per-coordinate variances injected through the simulation's scheme table) x variances {0, 1e-300, ref/1e3, ref/2, ref, 2ref, 10ref, 1e3ref, 1e300}: delta finite and within [min,max] (4 ulp), == max at zero variance, == midpoint at the reference variance, -> min for variance >= 1000 ref, non-increasing along the grid, reference variance used without committee data.",
        design_ref="4-C18",
        note="Nothing is claimed between grid points. Committee arrays realise variances up to rounding; anchors are compared with the realised value.",
        technique="exhaustive grid enumeration of the implementation's update path with range/anchor/monotonicity oracles",
    ),
    "C13": dict(
        category="exploration",
        text="(i) The acceptance function of the force-bias rejection sampler (calculate_trial_probability of a real ForceBias object after calculate_gamma) is evaluated on 64 reduced displacements for T in {1,300,5000} x 4 deltas (incl. per-coordinate) x 15 force patterns over {0,+-1e-12,+-1e-3,+-1,+-50,+-1e6,+-1e300} with mixed signs: finite, within [0,1], equal (1e-7) to an independent expm1-based Bal-Neyts density wherever |gamma| >= 1e-6, displacement along the force favoured, mean acceptance >= 0.2. (ii) real run(1) steps under prescribed generator answers (incl. rounds rejecting some coordinates and the extreme answers) x masses x 4 forms of the mass-scaling power: |dx| <= delta (m_min/m)^p, positions advanced exactly by zeta*delta*scale, step counter +1. (iii) real PCG64 seeds 0..31 with huge/mixed/zero forces: sampling rounds capped at 1000.",
        design_ref="4-C13",
        note="The density clause is verified as an identity of the sampler's acceptance function (uniform proposals accepted with probability P give density ~ P), not by sampling. Grid points only.",
        technique="exhaustive grid enumeration of the implementation's acceptance function and of step() under prescribed generator answers",
    ),
    "C14": dict(
        category="exploration",
        text="Grid enumeration on the real Verlet integrator: 4 potentials (harmonic, quartic, soft pair, 3-atom LJ) x masses {1, 63.5, mixed} x 3 start geometries x 2 momentum patterns x dt {0.25,0.5,1,2} fs x steps {1,5,20}: integrate, negate momenta, integrate returns to the start (1e-9); max energy error over a trajectory at dt vs dt/2 has ratio in [3.2,4.8]. maxwell_boltzmann_distribution under prescribed standard-normal answers: momenta == z sqrt(m kT) exactly, forced variant gives 2KE/dof == kT and is a rescaling. Real Hamiltonian trials (HamiltonianCanonical): every execution to depth 2-3 (all normal-draw menu answers, check_move answers with max_attempts=2, verdicts): the captured threshold equals exp(-dH/kT) with the kinetic energy of the freshly drawn momenta, and the configuration presented to the criteria equals a reference velocity-Verlet trajectory started from the pre-trial positions and those momenta.",
        design_ref="4-C14",
        note="'All smooth potentials' is represented by four; time steps within their stability range. The normal law itself is numpy's (trusted).",
        technique="exhaustive grid enumeration on the implementation plus stateless exploration of Hamiltonian trials with an independent reference integrator",
    ),
    "C12": dict(
        category="model_checking",
        text="All accept/reject/fail histories (depth 2 quick, 3 thorough) of real simulations with FixAtoms on every subset of <= 2 atoms, or FixCom, for Ball/Translation/D*2/D+D displacement moves, Rotation/TranslationRotation of a molecule, Hamiltonian moves (Verlet 1 fs x 3 steps, 2 fs x 1 step; check_move answers) and displacement trials inside Isobaric/GrandCanonical runs: after every trial the fixed atoms are bitwise at their start positions and the fixed centre of mass has not drifted (1e-10). ForceBias: all sequences of 2-3 steps over prescribed generator answers x delta x T with FixAtoms/FixCom. FixRot.adjust_momenta: every non-collinear placement of 3 (4) atoms on a 3x3x2 lattice x 4 mass sets x 6 momentum patterns: zero total angular momentum, unchanged linear momentum.",
        design_ref="4-C12",
        note="FixAtoms and FixCom are not combined (ASE itself moves the fixed atom then). Cell moves are not judged.",
        technique="stateless exhaustive exploration of the implementation with constraint invariants evaluated after every trial",
    ),
    "C20": dict(
        category="model_checking",
        text="Bare user classes (inheriting from nothing in the package) implementing exactly the documented Move/Criteria protocol are added with explicit criteria to every Monte Carlo driver (MonteCarlo, Canonical, HamiltonianCanonical, Isobaric, Isotension, GrandCanonical), alone and next to shipped displacement/cell/exchange moves; every attribute the package reads or writes on them is logged by __getattribute__/__setattr__. All histories to depth 2-3 (bare move truthy/falsy, every criteria verdict) are enumerated: access log within the protocol surface; falsy -> recorded as not attempted and the criteria not consulted, truthy -> consulted exactly once; the simulation's to_dict carries the user dictionaries and from_dict rebuilds the registered classes; exactly one on_atoms_changed with the right indices per accepted change of atom count and one on_cell_changed with the new cell per accepted cell change, none otherwise.",
        design_ref="4-C20",
        note="Accesses are attributed to the package by the calling frame's file. Implicit special-method calls are protocol calls by construction.",
        technique="stateless exhaustive exploration of the implementation with an attribute-access monitor and a notification reference model",
    ),
    "C01": dict(
        category="model_checking",
        text="Explicit-state model checking of the real one-trial kernel of MonteCarlo.step() on lattice versions of the four solvable systems (harmonic particles with Box/Ball/Sphere/composite proposals, rigid dipole in a field with rotation moves, ideal gas at constant pressure on a log-volume lattice, ideal gas at constant chemical potential on 27 insertion sites). From every state reached by BFS every generator answer of a coarse inversion-closed menu is enumerated with exact branch probabilities: (1) every captured acceptance threshold equals min(1, pi(y)/pi(x)) of the analytic target computed from the harness potential; (2) accepted -> the configuration shown to the criteria, otherwise the old state, bitwise; (3) the kernel of a trial following a live trial equals the kernel of a fresh simulation at the same state; (4) where the menu is closed under inversion (checked per edge) detailed balance holds on every edge between expanded states, one strongly connected component, a self-loop; (5) the dipole chain is closed (6 bond directions): its stationary vector equals exp(x cos) to 1e-9. L2: orientation law of Rotation/TranslationRotation on K^3 quantile grids has vanishing l=1,2 moments. L3: Verlet followed by momentum flip is a volume-preserving involution.",
        design_ref="4-C01",
        note="What is verified is the exact kernel of the real code on lattices plus proposal laws on grids; the passage to the continuum averages is the standard reversibility + irreducibility argument; PCG64 equidistribution is trusted. States off the lattices and N above the bound are not covered.",
        technique="explicit-state model checking of the implementation's transition kernel (BFS over states, exhaustive enumeration of generator answers with exact probabilities) against the analytic target",
    ),
}

NA_REASON = "check not built yet in this session (design in DESIGN.md); no claim is made"


def main():
    checks = []
    for pid in ALL:
        if pid not in CHECKS:
            continue
        c = CHECKS[pid]
        checks.append(
            {
                "property_id": pid,
                "quick_cmd": f"bin/check {pid} quick",
                "thorough_cmd": f"bin/check {pid} thorough",
                "evidence_file": f"evidence/{pid}.json",
                "replay_cmd_template": "bin/check replay {path}",
                "engine": "qv",
                "level_claimed": {"category": c["category"], "text": c["text"], "design_ref": c["design_ref"]},
                "level_note": c["note"],
                "technique": c["technique"],
            }
        )
    man = {
        "version": 1,
        "setup_cmd": "sh tools/setup.sh",
        "hooks": {
            "guard": "QUANSINO_VERIF",
            "enable": "no source hooks: environments (generator, calculator, files, check_move, observers, user moves/criteria) are injected through public arguments and plain attributes; checks import quansino from /repo/src",
            "baseline_off_cmd": "cd /repo && /venv/bin/python -m pytest -ra -q -p no:cacheprovider --timeout=900 --continue-on-collection-errors",
            "source_commits": [],
            "add_only": True,
        },
        "engines": [
            {
                "name": "qv",
                "path": "qv/",
                "serves_properties": sorted(CHECKS),
                "kind_free_text": "hand-written stateless explicit-state explorer for Python: choice-point random generator / fault-injecting file proxy / fresh-interpreter scheduler, DFS with prefix replay over the real quansino code, reference models in Python",
            }
        ],
        "checks": checks,
        "not_applicable": [{"property_id": p, "reason": NA_REASON} for p in ALL if p not in CHECKS],
        "notes": "known_findings.json lists genuine defects recorded (findings) or repaired in /repo by 'fix:' commits (fixed). VERIF_SEED only rotates non-semantic parameters (geometry jitter, extra seeds).",
    }
    (ROOT / "MANIFEST.json").write_text(json.dumps(man, indent=1) + "\n")


main()
