"""Harness calculators (trusted, boring)."""

from __future__ import annotations

import numpy as np
from ase.calculators.calculator import Calculator, all_changes


class Zero(Calculator):
    """Ideal gas: zero energy, zero forces."""

    implemented_properties = ["energy", "forces", "stress"]

    def __init__(self, **kw):
        super().__init__(**kw)
        self.evaluations = 0

    def calculate(self, atoms=None, properties=("energy",), system_changes=all_changes):
        super().calculate(atoms, properties, system_changes)
        self.evaluations += 1
        n = len(self.atoms)
        self.results = {"energy": 0.0, "forces": np.zeros((n, 3)), "stress": np.zeros(6)}


class Harmonic(Calculator):
    """E = k/2 sum_i |r_i - c|^2  (every atom bound to the same centre ``c``)."""

    implemented_properties = ["energy", "forces"]

    def __init__(self, k=1.0, centre=(0.0, 0.0, 0.0), **kw):
        super().__init__(**kw)
        self.k = float(k)
        self.centre = np.asarray(centre, dtype=float)
        self.evaluations = 0

    def energy_of(self, positions):
        d = np.asarray(positions) - self.centre
        return 0.5 * self.k * float((d * d).sum())

    def calculate(self, atoms=None, properties=("energy",), system_changes=all_changes):
        super().calculate(atoms, properties, system_changes)
        self.evaluations += 1
        d = self.atoms.positions - self.centre
        self.results = {"energy": 0.5 * self.k * float((d * d).sum()), "forces": -self.k * d}


class Quartic(Calculator):
    """E = sum_i (a |r_i-c|^2 + b |r_i-c|^4)."""

    implemented_properties = ["energy", "forces"]

    def __init__(self, a=0.5, b=0.25, centre=(0.0, 0.0, 0.0), **kw):
        super().__init__(**kw)
        self.a, self.b = float(a), float(b)
        self.centre = np.asarray(centre, dtype=float)
        self.evaluations = 0

    def energy_of(self, positions):
        d = np.asarray(positions) - self.centre
        r2 = (d * d).sum(axis=1)
        return float((self.a * r2 + self.b * r2 * r2).sum())

    def calculate(self, atoms=None, properties=("energy",), system_changes=all_changes):
        super().calculate(atoms, properties, system_changes)
        self.evaluations += 1
        d = self.atoms.positions - self.centre
        r2 = (d * d).sum(axis=1)
        self.results = {
            "energy": float((self.a * r2 + self.b * r2 * r2).sum()),
            "forces": -(2 * self.a + 4 * self.b * r2)[:, None] * d,
        }


class Dipole(Calculator):
    """Point charges q_i in a uniform field F along z: E = -F sum_i q_i z_i.
    Charges are taken from ``charges`` (fixed list, independent of atoms arrays)."""

    implemented_properties = ["energy", "forces"]

    def __init__(self, charges, field=1.0, **kw):
        super().__init__(**kw)
        self.q = np.asarray(charges, dtype=float)
        self.field = float(field)
        self.evaluations = 0

    def energy_of(self, positions):
        return -self.field * float((self.q * np.asarray(positions)[:, 2]).sum())

    def calculate(self, atoms=None, properties=("energy",), system_changes=all_changes):
        super().calculate(atoms, properties, system_changes)
        self.evaluations += 1
        f = np.zeros((len(self.atoms), 3))
        f[:, 2] = self.field * self.q
        self.results = {"energy": self.energy_of(self.atoms.positions), "forces": f}


class PairSoft(Calculator):
    """Smooth finite pair potential, open boundary: E = eps * sum_{i<j} exp(-r_ij^2/s^2) + harmonic
    confinement.  Depends on all coordinates and on the atom count; finite everywhere."""

    implemented_properties = ["energy", "forces"]

    def __init__(self, eps=0.05, s=1.5, k=0.02, centre=(0.0, 0.0, 0.0), **kw):
        super().__init__(**kw)
        self.eps, self.s, self.k = float(eps), float(s), float(k)
        self.centre = np.asarray(centre, dtype=float)
        self.evaluations = 0

    def _ef(self, pos):
        pos = np.asarray(pos, dtype=float)
        n = len(pos)
        d = pos - self.centre
        e = 0.5 * self.k * float((d * d).sum())
        f = -self.k * d
        for i in range(n):
            for j in range(i + 1, n):
                rij = pos[i] - pos[j]
                g = self.eps * np.exp(-(rij @ rij) / self.s**2)
                e += g
                fij = 2 * g / self.s**2 * rij
                f[i] += fij
                f[j] -= fij
        return float(e), f

    def energy_of(self, positions):
        return self._ef(positions)[0]

    def calculate(self, atoms=None, properties=("energy",), system_changes=all_changes):
        super().calculate(atoms, properties, system_changes)
        self.evaluations += 1
        e, f = self._ef(self.atoms.positions)
        self.results = {"energy": e, "forces": f}


class PairSpecies(PairSoft):
    """PairSoft whose pair strength depends on the two atomic numbers: swapping the species of two
    atoms changes the energy even when the set of positions is the same."""

    def calculate(self, atoms=None, properties=("energy",), system_changes=all_changes):
        Calculator.calculate(self, atoms, properties, system_changes)
        self.evaluations += 1
        pos = np.asarray(self.atoms.positions, dtype=float)
        w = 1.0 + 0.02 * np.asarray(self.atoms.numbers, dtype=float)
        n = len(pos)
        d = pos - self.centre
        e = 0.5 * self.k * float((w[:, None] * d * d).sum()) if n else 0.0
        f = -self.k * w[:, None] * d if n else np.zeros((0, 3))
        for i in range(n):
            for j in range(i + 1, n):
                rij = pos[i] - pos[j]
                g = self.eps * w[i] * w[j] * np.exp(-(rij @ rij) / self.s**2)
                e += g
                fij = 2 * g / self.s**2 * rij
                f[i] += fij
                f[j] -= fij
        self.results = {"energy": float(e), "forces": f}


class PerAtomState(PairSoft):
    """Neighbour-list style: keeps a per-atom array that is (re)built only when ASE reports that
    ``numbers`` changed (as ASE's LennardJones / EMT do) and is then indexed by atom."""

    def __init__(self, **kw):
        super().__init__(**kw)
        self.per_atom = None

    def calculate(self, atoms=None, properties=("energy",), system_changes=all_changes):
        Calculator.calculate(self, atoms, properties, system_changes)
        self.evaluations += 1
        if self.per_atom is None or "numbers" in system_changes:
            self.per_atom = np.zeros(len(self.atoms))
        # indexing with a stale per-atom array raises, as a stale neighbour list would
        self.per_atom[np.arange(len(self.atoms))] += 1.0
        if len(self.per_atom) != len(self.atoms):
            raise ValueError("per-atom state has wrong length")
        e, f = self._ef(self.atoms.positions)
        self.results = {"energy": e, "forces": f}


class Bare:
    """A minimal non-ASE-Calculator object: exposes get_potential_energy / get_forces and a
    ``results`` dict; recomputes on every call (stateless)."""

    def __init__(self, k=1.0):
        self.k = k
        self.results = {}
        self.evaluations = 0
        self.atoms = None

    def energy_of(self, positions):
        d = np.asarray(positions)
        return 0.5 * self.k * float((d * d).sum())

    def get_potential_energy(self, atoms=None, force_consistent=False):
        self.evaluations += 1
        e = self.energy_of(atoms.positions)
        self.results = {"energy": e}
        return e

    def get_forces(self, atoms=None):
        return -self.k * atoms.positions

    def calculation_required(self, atoms, quantities):
        return True

    def get_property(self, name, atoms=None, allow_calculation=True):
        if name == "energy":
            return self.get_potential_energy(atoms)
        if name == "forces":
            return self.get_forces(atoms)
        raise NotImplementedError(name)


def fresh_energy(calc_factory, atoms):
    """From-scratch evaluation on a copy by an independent calculator instance."""
    a = atoms.copy()
    a.calc = calc_factory()
    return a.get_potential_energy()
