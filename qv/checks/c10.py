"""C10 - proposal operations stay within their advertised geometry and are symmetric.

Product grids of generator answers (equal-probability quantile midpoints, plus the extreme
answers for the bound clauses) are fed to every shipped operation; geometric invariants are
checked on every grid point and the multiset of results over the (inversion-closed) grid must be
closed under inversion (-d, R^-1, F^-1) with equal multiplicity.
"""

from __future__ import annotations

import itertools

import numpy as np
from ase.atoms import Atoms
from scipy.spatial import cKDTree

from qv.core import js
from qv.rngx import QuantileRNG
from qv.runner import Acc, Report, pmap

PID = "C10"
CELLS = {"cubic": np.diag([6.0, 6.0, 6.0]), "triclinic": np.array([[6.0, 0, 0], [1.2, 5.5, 0], [0.7, 0.9, 6.3]])}
GROUPS = {
    1: ("Cu", [[1.0, 1.1, 0.9]]),
    2: ("OH", [[1.0, 1.1, 0.9], [1.3, 1.9, 1.2]]),
    3: ("OHH", [[1.0, 1.1, 0.9], [1.3, 1.9, 1.2], [0.2, 1.3, 1.1]]),
    4: ("CuOHAr", [[1.0, 1.1, 0.9], [1.9, 1.4, 1.2], [0.6, 2.3, 1.0], [1.2, 1.3, 2.4]]),
}
REL = 1e-12


def midpoints(k):
    return [(i + 0.5) / k for i in range(k)]


EXT = [0.0, 1.0 - 2.0**-53]


class Ctx:
    """Minimal context: what operations read (atoms, rng, _moving_indices)."""

    def __init__(self, atoms, rng, moving):
        self.atoms, self.rng, self._moving_indices = atoms, rng, np.asarray(moving)


def build_atoms(gsize, cellname, custom_masses=False, outside=False):
    sym, pos = GROUPS[gsize]
    # one spectator atom in front so that moving indices are not 0..k-1
    atoms = Atoms("Ar" + sym, positions=[[4.0, 4.2, 3.9], *pos], cell=CELLS[cellname], pbc=True)
    if custom_masses:  # user-set masses (isotopes): the centre of mass differs from the standard one
        atoms.set_masses(atoms.get_masses() * np.array([1.0, 2.5, 1.0, 3.0, 0.5][: len(atoms)]))
    if outside:  # the group sits in a neighbouring periodic image / straddles a face
        atoms.positions[1:] += CELLS[cellname][0] - 0.4 * CELLS[cellname][1]
    return atoms, np.arange(1, gsize + 1)


def _adder():
    viol, seen = [], {}

    def add(sig, what):
        seen[sig] = seen.get(sig, 0) + 1
        if seen[sig] <= 2:
            viol.append({"signature": sig, "what": what, "replay": {}})

    return viol, seen, add


def closure(points, inv_points, tol=1e-8):
    """Multiset {points} == multiset {inv_points} up to tol (neighbour counts agree)."""
    a, b = np.asarray(points, float), np.asarray(inv_points, float)
    ta, tb = cKDTree(a), cKDTree(b)
    ca = ta.query_ball_point(b, tol, return_length=True)
    cb = tb.query_ball_point(b, tol, return_length=True)
    bad = np.flatnonzero(ca != cb)
    return bad


def rot_from(before, after, masses):
    com0 = (masses[:, None] * before).sum(0) / masses.sum()
    com1 = (masses[:, None] * after).sum(0) / masses.sum()
    X, Y = before - com0, after - com1
    R, *_ = np.linalg.lstsq(X, Y, rcond=None)  # Y = X @ R
    return R.T, com0, com1


def task_displacement(arg):
    from quansino.operations.displacement import Ball, Box, Rotation, Sphere, Translation, TranslationRotation

    op_name, K, cellname, gsize = arg["op"], arg["K"], arg["cell"], arg["group"]
    counters = {"evaluations": 0, "nontrivial": 0}
    viol, seen, add = _adder()
    steps = [1e-3, 0.1, 2.5] if op_name in ("box", "ball", "sphere") else [None, "custom-masses", "outside-cell"]
    for s in steps:
        variant = s if isinstance(s, str) else None
        if variant:
            s = None
        op = {"box": lambda: Box(s), "ball": lambda: Ball(s), "sphere": lambda: Sphere(s), "trans": Translation, "rot": Rotation, "transrot": TranslationRotation}[op_name]()
        ndraw = {"box": 3, "ball": 3, "sphere": 2, "trans": 3, "rot": 3, "transrot": 6}[op_name]
        sig0 = f"C10/{op_name}"
        where0 = f"step={s} cell={cellname} group={gsize}" + (f" {variant}" if variant else "")
        results, inv = [], []
        grids = [("mid", midpoints(K))]
        if op_name in ("box", "ball", "sphere", "trans"):
            grids.append(("ext", EXT + [0.5]))
        for gname, qs1 in grids:
            for q in itertools.product(qs1, repeat=ndraw):
                atoms, moving = build_atoms(gsize, cellname, custom_masses=variant == "custom-masses", outside=variant == "outside-cell")
                rng = QuantileRNG(list(q) + [0.5] * 6)
                ctx = Ctx(atoms, rng, moving)
                before = atoms.positions[moving].copy()
                try:
                    d = np.asarray(op.calculate(ctx), dtype=float)
                except Exception as e:  # noqa: BLE001
                    from qv.core import HarnessError

                    if isinstance(e, HarnessError):
                        raise
                    add(f"{sig0}/exception:{type(e).__name__}", f"{e}; q={q} {where0}")
                    continue
                counters["evaluations"] += 1
                where = f"q={js(q)} {where0}"
                if d.ndim != 2 or d.shape[1] != 3 or d.shape[0] not in (1, gsize):
                    add(f"{sig0}/result-shape", f"shape {d.shape}; {where}")
                    continue
                if not np.all(np.isfinite(d)):
                    add(f"{sig0}/non-finite", where)
                    continue
                full = np.broadcast_to(d, (gsize, 3))
                after = before + full
                if op_name == "box":
                    if np.abs(d).max() > s * (1 + REL):
                        add(f"{sig0}/component-exceeds-step", f"{js(d)}; {where}")
                elif op_name == "ball":
                    if np.linalg.norm(d, axis=1).max() > s * (1 + REL):
                        add(f"{sig0}/norm-exceeds-step", f"|d|={np.linalg.norm(d)}; {where}")
                elif op_name == "sphere":
                    if abs(np.linalg.norm(d, axis=1).max() - s) > s * 1e-12 * 4:
                        add(f"{sig0}/norm-not-equal-step", f"|d|={np.linalg.norm(d)!r}; {where}")
                if op_name in ("box", "ball", "sphere", "trans") and d.shape[0] != 1 and np.abs(d - d[0]).max() > 1e-12:
                    add(f"{sig0}/not-rigid-translation", f"{js(d)}; {where}")
                if op_name == "trans":
                    frac = np.linalg.solve(CELLS[cellname].T, after.mean(axis=0))
                    # each fractional coordinate is one of the drawn uniforms (in whatever order the
                    # implementation assigns them): a uniform grid of answers gives a uniform grid of centroids
                    if np.abs(np.sort(frac) - np.sort(np.array(q[:3]))).max() > 1e-10 and gname == "mid":
                        add(f"{sig0}/centroid-not-at-drawn-fractional-point", f"fractional centroid {js(frac)}; {where}")
                    if (frac < -1e-12).any() or (frac > 1 + 1e-12).any():
                        add(f"{sig0}/centroid-outside-cell", f"fractional centroid {js(frac)}; {where}")
                if op_name in ("rot", "transrot") or gsize > 1:
                    # rigidity
                    d0 = np.linalg.norm(before[:, None] - before[None], axis=-1)
                    d1 = np.linalg.norm(after[:, None] - after[None], axis=-1)
                    if np.abs(d0 - d1).max() > 1e-10:
                        add(f"{sig0}/not-rigid", f"pair distances change by {np.abs(d0 - d1).max():.3g}; {where}")
                        continue
                if op_name == "rot":
                    m = atoms.get_masses()[moving]
                    c0 = (m[:, None] * before).sum(0) / m.sum()
                    c1 = (m[:, None] * after).sum(0) / m.sum()
                    if np.abs(c0 - c1).max() > 1e-10:
                        add(f"{sig0}/centre-of-mass-moved", f"by {np.abs(c0 - c1).max():.3g}; {where}")
                if gname != "mid":
                    continue
                counters["nontrivial"] += 1
                if op_name in ("box", "ball", "sphere"):
                    results.append(d[0])
                    inv.append(-d[0])
                elif op_name == "rot" and gsize == 4:
                    R, _, _ = rot_from(before, after, atoms.get_masses()[moving])
                    if abs(np.linalg.det(R) - 1) > 1e-8 or np.abs(R @ R.T - np.eye(3)).max() > 1e-8:
                        add(f"{sig0}/not-a-proper-rotation", f"det {np.linalg.det(R)}; {where}")
                        continue
                    results.append(R.ravel())
                    inv.append(R.T.ravel())
        if results:
            bad = closure(results, inv)
            if len(bad):
                i = int(bad[0])
                add(f"{sig0}/proposal-not-symmetric", f"{len(bad)} of {len(inv)} inverse results have no equally frequent counterpart on the {K}^{ndraw} grid, e.g. inverse of result #{i}: {js(np.round(inv[i], 6))}; {where0}")
    return {"counters": counters, "violations": viol, "seen": seen}


def task_composite(arg):
    """A composite operation returns the sum of its parts."""
    from quansino.operations.displacement import Ball, Box, Sphere, Translation

    counters = {"evaluations": 0, "nontrivial": 0}
    viol, seen, add = _adder()
    K = arg["K"]
    log = []

    def rec(op):
        inner = op.calculate

        class R(type(op)):
            __slots__ = ()

            def calculate(self, context):
                r = inner(context)
                log.append(np.array(r, float))
                return r

        op.__class__ = R
        return op

    combos = {
        "ball+box": (lambda: rec(Ball(0.3)) + rec(Box(0.2)), 6),
        "box*2": (lambda: rec(Box(0.2)) * 2, 6),
        "sphere+(ball+box)": (lambda: rec(Sphere(0.5)) + (rec(Ball(0.3)) + rec(Box(0.2))), 8),
        "trans+box": (lambda: rec(Translation()) + rec(Box(0.2)), 6),
    }
    for name, (mk, nd) in combos.items():
        kk = K if nd <= 6 else max(2, K // 2)
        for q in itertools.product(midpoints(kk), repeat=min(nd, 4)):
            atoms, moving = build_atoms(2, "triclinic")
            del log[:]
            ctx = Ctx(atoms, QuantileRNG(list(q) + [0.3, 0.6, 0.8, 0.2, 0.7, 0.4]), moving)
            r = np.asarray(mk().calculate(ctx), float)
            counters["evaluations"] += 1
            counters["nontrivial"] += 1
            if not np.allclose(r, np.sum(log, axis=0), atol=1e-13, rtol=0):
                add(f"C10/composite/{name}/not-sum-of-parts", f"result {js(r)} vs parts {js(log)}")
    return {"counters": counters, "violations": viol, "seen": seen}


def task_deformation(arg):
    from quansino.operations.cell import AnisotropicDeformation, IsotropicDeformation, ShapeDeformation

    kind, K = arg["kind"], arg["K"]
    counters = {"evaluations": 0, "nontrivial": 0}
    viol, seen, add = _adder()
    cls = {"iso": IsotropicDeformation, "aniso": AnisotropicDeformation, "shape": ShapeDeformation}[kind]
    nd = 1 if kind == "iso" else 6
    atoms, moving = build_atoms(1, "triclinic")
    for mv in (1e-3, 0.05, 0.6):
        op = cls(mv)
        results, inv = [], []
        qs = midpoints(K) if nd == 6 else midpoints(8 * K)
        for q in itertools.product(qs, repeat=nd):
            F = np.asarray(op.calculate(Ctx(atoms, QuantileRNG(list(q) + [0.5] * 6), moving)), float)
            counters["evaluations"] += 1
            counters["nontrivial"] += 1
            where = f"max_value={mv} q={js(q)}"
            if F.shape != (3, 3) or not np.all(np.isfinite(F)):
                add(f"C10/{kind}/bad-result", where)
                continue
            if np.abs(F - F.T).max() > 1e-12:
                add(f"C10/{kind}/not-symmetric-matrix", f"asymmetry {np.abs(F - F.T).max():.3g}; {where}")
            if np.linalg.eigvalsh(0.5 * (F + F.T)).min() <= 0:
                add(f"C10/{kind}/not-positive-definite", where)
            if kind == "iso" and np.abs(F - F[0, 0] * np.eye(3)).max() > 1e-14:
                add(f"C10/{kind}/not-scalar-times-identity", f"{js(F)}; {where}")
            if kind == "shape" and abs(np.linalg.det(F) - 1.0) > 1e-12:
                add(f"C10/{kind}/volume-not-preserved", f"det = {np.linalg.det(F)!r}; {where}")
            results.append(F.ravel())
            inv.append(np.linalg.inv(F).ravel())
        bad = closure(results, inv)
        if len(bad):
            add(f"C10/{kind}/proposal-not-symmetric", f"{len(bad)} of {len(inv)} inverse gradients have no equally frequent counterpart; max_value={mv}")
    # default masks belong to their operation: editing one in place must not reach another operation
    qd = [0.2, 0.9, 0.35, 0.65, 0.8, 0.1]
    ref_default = np.asarray(cls(0.3).calculate(Ctx(atoms, QuantileRNG(qd), moving)), float)
    first = cls(0.3)
    first.mask[2, 2] = False
    first.mask[0, 1] = False
    later = np.asarray(cls(0.3).calculate(Ctx(atoms, QuantileRNG(qd), moving)), float)
    counters["evaluations"] += 2
    if np.abs(later - ref_default).max() > 0:
        add(f"C10/{kind}/mask/default-mask-shared-between-operations", f"after editing the default mask of one {cls.__name__} in place, a newly built one returns {js(later)} instead of {js(ref_default)}")
    # masks: identity in masked-out components, unmasked value elsewhere
    qsm = [0.2, 0.9]
    for bits in range(512):
        mask = np.array([(bits >> i) & 1 for i in range(9)], dtype=bool).reshape(3, 3)
        for q in itertools.product(qsm, repeat=min(nd, 2)):
            qq = list(q) + [0.35, 0.65, 0.8, 0.1, 0.5, 0.5]
            F0 = np.asarray(cls(0.3).calculate(Ctx(atoms, QuantileRNG(qq), moving)), float)
            F = np.asarray(cls(0.3, mask=mask.copy()).calculate(Ctx(atoms, QuantileRNG(qq), moving)), float)
            op_late = cls(0.3, mask=~mask) if bits % 2 else cls(0.3)
            op_late.mask = mask.copy()  # the documented attribute assigned after construction
            F_late = np.asarray(op_late.calculate(Ctx(atoms, QuantileRNG(qq), moving)), float)
            if np.abs(F_late - F).max() > 0:
                add(f"C10/{kind}/mask/mask-assigned-after-construction-not-honoured", f"mask {mask.astype(int).tolist()}: F={js(F_late)} vs {js(F)}")
            counters["evaluations"] += 1
            if not mask.all():
                counters["nontrivial"] += 1
            I = np.eye(3)
            if np.abs(F[~mask] - I[~mask]).max(initial=0.0) > 0:
                add(f"C10/{kind}/mask/masked-out-component-not-identity", f"mask {mask.astype(int).tolist()}: F={js(F)}")
            elif np.abs(F[mask] - F0[mask]).max(initial=0.0) > 1e-15:
                add(f"C10/{kind}/mask/masked-in-component-altered", f"mask {mask.astype(int).tolist()}")
    return {"counters": counters, "violations": viol, "seen": seen}


def run(tier, seed):
    rep = Report("exploration")
    acc = Acc()
    K3 = 8 if tier == "quick" else 16
    K6 = 2 if tier == "quick" else 4
    args = []
    for op in ("box", "ball", "sphere", "trans", "rot"):
        for cell in CELLS:
            for g in (1, 2, 3, 4):
                if op in ("box", "ball", "sphere") and (g not in (1, 3) or cell == "cubic"):
                    continue
                args.append({"op": op, "K": K3, "cell": cell, "group": g})
    for cell in CELLS:
        for g in (2, 4):
            args.append({"op": "transrot", "K": K6 + 1, "cell": cell, "group": g})
    for r in pmap(__name__, "task_displacement", args):
        acc.add(r)
    for r in pmap(__name__, "task_deformation", [{"kind": k, "K": 3 if tier == "quick" else 4} for k in ("iso", "aniso", "shape")]):
        acc.add(r)
    for r in pmap(__name__, "task_composite", [{"K": 4 if tier == "quick" else 6}]):
        acc.add(r)
    rep.violations = acc.violations
    rep.coverage = {
        "evaluations": acc.n("evaluations"),
        "distinct_nontrivial": acc.n("nontrivial"),
        "rule": f"product grids of K equal-probability quantile midpoints per generator answer (K={K3} for 2-3 draws, {K6 + 1} for 6 rigid-body draws, 3-4 for 6 strain components, {8 * (3 if tier == 'quick' else 4)} for the isotropic strain) plus the extreme answers {{lo, largest float below hi}}; x step sizes {{1e-3,0.1,2.5}} / max strains {{1e-3,0.05,0.6}} x cells {{cubic,triclinic}} x groups of 1-4 atoms with mixed masses; all 512 masks x 3 deformation kinds; non-trivial = interior grid points (used in the inversion-closure multiset test) and non-default masks",
        "exhaustive": True,
        "samples": [{"op": "rot", "K": K3, "cell": "triclinic", "group": 4, "checks": ["pair distances", "mass-weighted COM", "multiset of rotation matrices closed under transpose"]}, {"op": "shape", "q": midpoints(3), "checks": ["det == 1", "symmetric positive definite", "inverse present in grid"]}],
    }
    rep.assumptions = ["the quantile grid is closed under q -> 1-q and (K even) under angular shifts by pi, so a symmetric proposal law yields an inversion-closed multiset of results", "values between grid points are not explored"]
    return rep
