"""C16 - output files are well-formed after every write and after a crash at any point.

Crash model: the process dies between two file-object operations; what survives is what an
independent reader sees on disk at that instant (plus line-granular torn tails of the bytes an
operation made visible).  Enumerated: every grow/shrink history of a GrandCanonical run with
explorer-chosen verdicts (depth 3 quick / 4 thorough), a Canonical and a ForceBias run, files
opened in 'a' and 'w' mode; every crash point of every history.
"""

from __future__ import annotations

import io
import json
import os
import warnings

import numpy as np
from ase.atoms import Atoms

from qv import calcs
from qv.checks.c05 import ChoiceCriteria
from qv.core import Chooser, Stats, explore, js
from qv.faultfs import CrashFile, OpLog, cleanup, scratch_dir, torn_states
from qv.rngx import ChoiceRNG, Policy, install
from qv.runner import Acc, Report, pmap

PID = "C16"
POLICY = dict(uniform_q=(0.3, 0.8), angular_q=None, product_limit=0, branch_calls=0)


class Marked:
    """Observer wrapper: marks the completion of each call in the operation log."""

    def __init__(self, inner, oplog, tag, sim, atoms):
        self.inner, self.oplog, self.tag, self.sim, self.atoms = inner, oplog, tag, sim, atoms

    @property
    def interval(self):
        return self.inner.interval

    def __call__(self):
        self.inner()
        self.oplog.mark(self.tag, {"step": int(self.sim.step_count), "n": len(self.atoms)})

    def close(self):
        self.inner.close()


PRE = {
    "log": b"old header\nold row 1\n",
    "traj": b'1\nLattice="5.0 0.0 0.0 0.0 5.0 0.0 0.0 0.0 5.0" Properties=species:S:1:pos:R:3 pbc="T T T"\nAr       0.00000000       0.00000000       0.00000000\n',
    "restart": json.dumps({"atoms": "state of a previous, larger run", "pad": "x" * 6000}).encode(),
}


def build(driver, mode, oplog, d, chooser=None, interval=1, preexisting=False, declared_mode=None):
    from quansino.mc.canonical import Canonical
    from quansino.mc.fbmc import ForceBias
    from quansino.mc.gcmc import GrandCanonical
    from quansino.moves.displacement import DisplacementMove
    from quansino.moves.exchange import ExchangeMove
    from quansino.operations.displacement import Ball

    tags = ["log", "traj"] + ([] if driver == "ForceBias" else ["restart"])
    if preexisting:
        for t in tags:
            with open(os.path.join(d, t), "wb") as f:
                f.write(PRE[t])
    files = {t: CrashFile(os.path.join(d, t), mode, oplog, t) for t in tags}
    pos = np.array([[1.0, 1.2, 0.9], [3.1, 2.2, 4.0]])
    atoms = Atoms("Ar2", positions=pos, cell=[6.0] * 3, pbc=True)
    # ``logging_mode`` only says how quansino would open a *path*; a caller-opened handle may differ
    kw = dict(logfile=files["log"], trajectory=files["traj"], logging_interval=interval, logging_mode=declared_mode or mode, seed=5)
    if "restart" in files:
        kw["restart_file"] = files["restart"]
    with warnings.catch_warnings():
        warnings.simplefilter("ignore")
        if driver == "GrandCanonical":
            atoms.calc = calcs.Zero()
            sim = GrandCanonical(atoms, exchange_atoms=Atoms("Ar"), temperature=800.0, chemical_potential=-0.3, number_of_exchange_particles=2, max_cycles=1, **kw)
            sim.add_move(ExchangeMove(np.arange(2)), name="e")
        elif driver == "Canonical":
            atoms.calc = calcs.PairSoft(centre=(3, 3, 3))
            sim = Canonical(atoms, temperature=500.0, max_cycles=2, **kw)
            sim.add_move(DisplacementMove(np.arange(2), Ball(0.3)), name="d")
        else:
            atoms.calc = calcs.PairSoft(centre=(3, 3, 3))
            sim = ForceBias(atoms, delta=0.1, temperature=500.0, **kw)
    if chooser is not None:
        install(sim, ChoiceRNG(chooser, Policy(**POLICY)))
        for st in sim.moves.values():
            st.criteria = ChoiceCriteria(chooser)
    obs = sim.file_manager.observers
    names = {"default_logger": "log", "default_trajectory": "traj", "default_restart": "restart"}
    for name in list(obs):
        obs[name] = Marked(obs[name], oplog, names[name], sim, atoms)
    return sim, atoms, files


def one_json_document(text: str):
    try:
        doc = json.loads(text)
    except Exception:  # noqa: BLE001
        return None
    return doc if isinstance(doc, dict) and "atoms" in doc else None


def analyse(oplog: OpLog, driver, mode, add, counters, where, preexisting=False):
    """Walk the operation log: completed-call checks at marks, crash-state checks at every op."""
    from ase.io import read as ase_read
    from ase.io.jsonio import decode

    keep = preexisting and mode == "a"  # 'w' truncates on open
    pre = {t: (PRE[t] if keep else b"") for t in PRE}
    last = dict(pre)  # disk content after the previous op on that file
    completed = {"log": pre["log"], "traj": pre["traj"], "restart": None}  # content at the last completed call
    ncalls = {"log": 0, "traj": 0, "restart": 0}
    saved_docs: list[bytes] = [pre["restart"]] if keep else []
    pre_lines = pre["log"].count(b"\n")
    pre_frames = 1 if keep else 0
    marks_at: dict[int, list] = {}
    for idx, tag, info in oplog.marks:
        marks_at.setdefault(idx, []).append((tag, info))
    sig0 = f"C16/{driver}/mode-{mode}"
    for i, (tag, op, disk) in enumerate(oplog.ops):
        states = torn_states(last[tag], disk) + [disk]
        for s in states:
            counters["crash_states"] += 1
            torn = s is not disk
            if tag in ("log", "traj"):
                if not s.startswith(completed[tag]):
                    add(f"{sig0}/{tag}/completed-records-damaged-at-crash", f"crash after op #{i} ({op}{', torn' if torn else ''}): the {ncalls[tag]} completed {tag} records are no longer a prefix of the file; {where}")
                elif s != completed[tag]:
                    counters["nontrivial"] += 1
            else:
                if saved_docs:
                    if s in saved_docs:
                        pass
                    else:
                        doc = one_json_document(s.decode("utf-8", "replace"))
                        counters["nontrivial"] += 1
                        if doc is None:
                            kind = "empty" if len(s.strip()) == 0 else "partial-or-garbled"
                            add(f"{sig0.replace('/mode-' + mode, '')}/restart/crash-inside-rewrite/file-{kind}", f"crash after op #{i} ({op}{', torn' if torn else ''}) of a later restart call leaves a file that does not load ({len(s)} bytes) although {len(saved_docs)} restart documents had been completed; {where}")
        last[tag] = disk
        # completed observer calls ending right after this op
        for mtag, info in marks_at.get(i + 1, []):
            counters["completed_calls"] += 1
            ncalls[mtag] += 1
            cur = last[mtag]
            if mtag == "log":
                text = cur.decode()
                lines = text.split("\n")
                if not text.endswith("\n") or len(lines) - 1 != pre_lines + 1 + ncalls["log"] or "Step" not in lines[pre_lines]:
                    add(f"{sig0}/log/not-header-plus-one-flushed-line-per-call", f"after call {ncalls['log']} the file on disk has {len(lines) - 1} complete lines (ends with newline: {text.endswith(chr(10))}); {where}")
                if not cur.startswith(completed["log"]):
                    add(f"{sig0}/log/earlier-bytes-changed", f"after call {ncalls['log']}; {where}")
            elif mtag == "traj":
                if not cur.startswith(completed["traj"]):
                    add(f"{sig0}/traj/earlier-bytes-changed", f"after call {ncalls['traj']}; {where}")
                try:
                    frames = ase_read(io.StringIO(cur.decode()), index=":", format="extxyz")
                    nfr, lastn = len(frames), len(frames[-1])
                except Exception as e:  # noqa: BLE001
                    nfr, lastn = -1, repr(e)[:80]
                if nfr != pre_frames + ncalls["traj"] or lastn != info["n"]:
                    add(f"{sig0}/traj/not-one-complete-frame-per-call", f"after call {ncalls['traj']} the file on disk parses to {nfr} frames (last has {lastn} atoms, simulation has {info['n']}); {where}")
            else:
                text = cur.decode("utf-8", "replace")
                doc = one_json_document(text)
                ok = False
                if doc is not None:
                    try:
                        data = decode(text)
                        ok = int(data["attributes"]["step_count"]) == info["step"] and len(data["atoms"]) == info["n"]
                        why = f"step {data['attributes']['step_count']} atoms {len(data['atoms'])}"
                    except Exception as e:  # noqa: BLE001
                        why = repr(e)[:80]
                else:
                    why = "not exactly one JSON document"
                if not ok:
                    add(f"{sig0}/restart/not-one-document-of-latest-state", f"after restart call {ncalls['restart']} (step {info['step']}, {info['n']} atoms): {why}; {where}")
                else:
                    saved_docs.append(cur)
            completed[mtag] = cur


def task_gc(arg):
    mode, depth = arg["mode"], arg["depth"]
    counters = {"executions": 0, "crash_states": 0, "nontrivial": 0, "completed_calls": 0, "ops": 0}
    viol, seen = [], {}
    sizes = set()
    st = Stats()

    def run(ch):
        d = scratch_dir()
        oplog = OpLog()
        try:
            sim, atoms, files = build("GrandCanonical", mode, oplog, d, chooser=ch, interval=arg.get("interval", 1), preexisting=arg.get("pre", False))
            err = None
            try:
                sim.run(depth)
                hist = None
            except Exception as e:  # noqa: BLE001
                from qv.core import HarnessError

                if isinstance(e, HarnessError):
                    raise
                err = f"{type(e).__name__}: {e}"
            n_final = len(atoms)
            sim.close()
        finally:
            cleanup(d)
        return oplog, err, n_final

    gen = explore(run, stats=st)
    if arg.get("only") is not None:
        c = Chooser(arg["only"])
        gen = [(c, run(c))]
    for ch, (oplog, err, n_final) in gen:
        counters["executions"] += 1
        counters["ops"] += len(oplog.ops)
        rep = {"check": PID, "func": "task_gc", "arg": {**{k: v for k, v in arg.items() if k != "only"}, "only": ch.choices}}
        where = f"GrandCanonical history {[p.label for p in ch.trace if p.kind == 'verdict']} final atoms {n_final}"

        def add(sig, what, rep=rep):
            seen[sig] = seen.get(sig, 0) + 1
            if seen[sig] <= 2:
                viol.append({"signature": sig, "what": what, "replay": rep})

        if err:
            add(f"C16/GrandCanonical/mode-{mode}/exception", f"{err}; {where}")
            continue
        sizes.add(n_final)
        analyse(oplog, "GrandCanonical", mode, add, counters, where + (" (files with earlier content)" if arg.get("pre") else ""), preexisting=arg.get("pre", False))
    counters["transitions"] = st.points
    return {"counters": counters, "violations": viol, "sets": {"final_sizes": list(sizes)}, "samples": []}


def task_fixed(arg):
    driver, mode = arg["driver"], arg["mode"]
    counters = {"executions": 1, "crash_states": 0, "nontrivial": 0, "completed_calls": 0, "ops": 0}
    viol, seen = [], {}

    def add(sig, what):
        seen[sig] = seen.get(sig, 0) + 1
        if seen[sig] <= 2:
            viol.append({"signature": sig, "what": what, "replay": {"check": PID, "func": "task_fixed", "arg": arg}})

    d = scratch_dir()
    oplog = OpLog()
    try:
        sim, atoms, files = build(driver, mode, oplog, d, interval=arg.get("interval", 1), preexisting=arg.get("pre", False), declared_mode=arg.get("declared"))
        try:
            sim.run(arg["steps"])
            sim.close()
        except Exception as e:  # noqa: BLE001
            add(f"C16/{driver}/mode-{mode}/exception", f"{type(e).__name__}: {e}")
    finally:
        cleanup(d)
    counters["ops"] = len(oplog.ops)
    analyse(oplog, driver, mode, add, counters, f"{driver} run({arg['steps']}) interval {arg.get('interval', 1)}" + (" (files with earlier content)" if arg.get("pre") else "") + (f" (handles opened '{mode}', logging_mode '{arg['declared']}')" if arg.get("declared") else ""), preexisting=arg.get("pre", False))
    sample = {"driver": driver, "mode": mode, "first_operations": [[t, o, len(b)] for t, o, b in oplog.ops[:14]], "marks": js(oplog.marks[:6])}
    return {"counters": counters, "violations": viol, "samples": [sample]}


class Boom(RuntimeError):
    pass


def task_fault(arg):
    """A logger field function raises during call k (e.g. a failing calculator); the user catches
    the exception and continues the run.  The log must still consist of complete rows only."""
    driver, mode, pos, k = arg["driver"], arg["mode"], arg["pos"], arg["k"]
    counters = {"executions": 1, "crash_states": 0, "nontrivial": 0, "completed_calls": 0, "ops": 0}
    viol = []
    d = scratch_dir()
    oplog = OpLog()
    try:
        sim, atoms, files = build(driver, mode, oplog, d)
        logger = sim.default_logger
        state = {"calls": 0}

        def faulty():
            state["calls"] += 1
            if state["calls"] == k + 1:
                raise Boom("field evaluation failed")
            return 1.5

        items = list(logger.fields.items())
        new = ("Faulty", {"function": faulty, "str_format": "{:10.3f}", "header_format": "{:>10s}", "is_array": False})
        idx = {"first": 0, "middle": len(items) // 2, "last": len(items)}[pos]
        items.insert(idx, new)
        logger.fields = dict(items)
        total, failures = arg["steps"], 0
        while sim.step_count < total or failures == 0 and k == 0 and state["calls"] == 0:
            try:
                sim.run(total - sim.step_count)
            except Boom:
                failures += 1
                if failures > 3:
                    break
        sim.close()
        with open(os.path.join(d, "log"), "rb") as f:
            text = f.read().decode()
    finally:
        cleanup(d)
    counters["ops"] = len(oplog.ops)
    counters["crash_states"] = 1
    counters["nontrivial"] = 1
    lines = text.split("\n")
    ncols = len(lines[0].split())
    bad = [i for i, l in enumerate(lines[1:-1], 1) if len(l.split()) != ncols]
    rows = lines[1:-1]
    completed = state["calls"] - (1 if state["calls"] >= k + 1 else 0)
    dup = [i for i, l in enumerate(rows, 1) if l == lines[0]]
    if dup or (not bad and text.endswith("\n") and len(rows) != completed):
        viol.append({"signature": f"C16/{driver}/mode-{mode}/log/not-one-header-plus-one-row-per-completed-call-after-failing-field/{pos}", "what": f"a field function raised during logger call {k} and the run was started again on the same object; the log holds the header again at lines {dup[:3]} and {len(rows)} rows after the first header for {completed} completed logger calls", "replay": {"check": PID, "func": "task_fault", "arg": arg}})
    if not text.endswith("\n") or bad:
        viol.append({"signature": f"C16/{driver}/mode-{mode}/log/torn-row-after-failing-field/{pos}", "what": f"a field function raised during logger call {k}; after the run was continued the log holds malformed rows at lines {bad[:3]} (expected {ncols} columns): {[lines[i] for i in bad[:2]]}", "replay": {"check": PID, "func": "task_fault", "arg": arg}})
    return {"counters": counters, "violations": viol, "samples": []}


def run(tier, seed):
    rep = Report("fault_enumeration")
    acc = Acc()
    depth = 3 if tier == "quick" else 4
    args = [{"mode": m, "depth": depth} for m in ("a", "w")]
    if tier == "thorough":
        args.append({"mode": "a", "depth": 4, "interval": 2})
    for r in pmap(__name__, "task_gc", args):
        acc.add(r)
    for r in pmap(__name__, "task_gc", [{"mode": m, "depth": depth - 1, "pre": True} for m in ("a", "w")]):
        acc.add(r)
    fixed = [{"driver": d, "mode": m, "steps": 4, "interval": iv} for d in ("Canonical", "ForceBias") for m in ("a", "w") for iv in (1, 2)]
    fixed += [{"driver": d, "mode": m, "steps": 3, "interval": 1, "pre": True} for d in ("Canonical", "ForceBias") for m in ("a", "w")]
    fixed += [{"driver": "Canonical", "mode": m, "declared": dm, "steps": 3, "interval": 1, "pre": p} for m, dm in (("w", "a"), ("a", "w")) for p in (False, True)]
    for r in pmap(__name__, "task_fixed", fixed):
        acc.add(r)
    faults = [{"driver": d, "mode": m, "pos": p, "k": k, "steps": 3} for d in ("Canonical", "ForceBias") for m in ("a", "w") for p in ("first", "middle", "last") for k in range(0, 4)]
    for r in pmap(__name__, "task_fault", faults):
        acc.add(r)
    rep.violations = acc.violations
    rep.coverage = {
        "evaluations": acc.n("crash_states"),
        "distinct_nontrivial": acc.n("nontrivial"),
        "rule": "one evaluation = one crash state (disk content after a file operation, or a line-granular torn prefix of the bytes that operation made visible) of one history; non-trivial = the crash state differs from every completed state of that file",
        "histories": acc.n("executions"),
        "file_operations": acc.n("ops"),
        "completed_observer_calls_checked": acc.n("completed_calls"),
        "final_atom_counts_seen": sorted(acc.sets.get("final_sizes", ())),
        "exhaustive": True,
        "samples": acc.samples[:2],
    }
    rep.assumptions = ["crash = process death between file-object operations; what survives is what a second descriptor reads; torn tails are cut at line boundaries and mid-line", "fsync/power-loss semantics are out of scope (the package never calls fsync)", "ForceBias is run without a restart file here (see C07)"]
    return rep


def replay(data):
    f = {"task_gc": task_gc, "task_fixed": task_fixed, "task_fault": task_fault}[data["func"]]
    res = f(data["arg"])
    return {"signatures": sorted({v["signature"] for v in res["violations"]})}
