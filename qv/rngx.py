"""Controlled random environments for quansino simulations.

``ChoiceRNG`` implements the ``numpy.random.Generator`` surface used by the package.  Every call
is a choice point of a :class:`qv.core.Chooser`.  Scalar ``random()`` returns an ``AcceptDraw``:
a ``float`` whose first ordering comparison captures the threshold it is compared with and lets
the explorer pick the outcome (only outcomes of positive probability are offered).

Install with ``install(sim, rng)`` after constructing the simulation.
"""

from __future__ import annotations

import itertools
import math

import numpy as np

from qv.core import Chooser, HarnessError

TWO_PI = 2 * math.pi


class AcceptDraw(float):
    """A uniform draw whose outcome against a threshold is decided by the explorer."""

    def __new__(cls, rng):
        self = super().__new__(cls, 0.5)
        self._rng = rng
        self._decided = None
        return self

    def _decide(self, t, strict_lt=True):
        if self._decided is not None:
            # a second comparison against the same draw: answer consistently if same threshold
            t0, ans = self._decided
            if float(t) == t0:
                return ans
            raise HarnessError("one uniform draw compared against two different thresholds")
        try:
            tf = float(t)
        except (TypeError, ValueError) as e:  # array threshold etc.
            raise HarnessError(f"scalar draw compared with non-scalar threshold {t!r}") from e
        rng = self._rng
        rng.uncaptured -= 1
        rng.thresholds.append(tf)
        if tf != tf:
            rng.chooser.notes.append(("nan-threshold",))
            rng.chooser.pick("accept", 1, [1.0], ["nan->False"], info=repr(tf))
            self._decided = (tf, False)
            return False
        if tf >= 1.0:
            rng.chooser.pick("accept", 1, [1.0], [True], info=tf)
            ans = True
        elif tf <= 0.0:
            rng.chooser.pick("accept", 1, [1.0], [False], info=tf)
            ans = False
        else:
            i = rng.chooser.pick("accept", 2, [tf, 1.0 - tf], [True, False], info=tf)
            ans = i == 0
        self._decided = (tf, ans)
        return ans

    def __lt__(self, t):  # u < t
        return self._decide(t)

    def __le__(self, t):  # u <= t  (probability identical)
        return self._decide(t)

    def __gt__(self, t):  # u > t
        return not self._decide(t)

    def __ge__(self, t):
        return not self._decide(t)

    __hash__ = float.__hash__


class _FakeBitGen:
    def __init__(self):
        self._state = {
            "bit_generator": "PCG64",
            "state": {"state": 0, "inc": 1},
            "has_uint32": 0,
            "uinteger": 0,
        }

    @property
    def state(self):
        return self._state

    @state.setter
    def state(self, v):
        self._state = v


class Policy:
    """Menus for continuous draws.

    uniform_q     : quantiles offered per element of a ``uniform`` call
    angular_q     : quantiles for angular draws (lo == 0 and hi in {2*pi, 360})
    normal_z/w    : values and weights for ``standard_normal`` elements
    product_limit : arrays with at most this many elements get the full product menu, larger
                    arrays get ``len(q)`` joint answers (element j of answer k takes quantile (k+j) mod len)
    branch_calls  : if not None, only the first ``branch_calls`` continuous calls of each segment
                    branch; later calls take their first joint answer (weight 1: enumeration only)
    """

    def __init__(
        self,
        uniform_q=(1 / 6, 1 / 2, 5 / 6),
        angular_q=(0.0, 0.25, 0.5, 0.75),
        normal_z=(-1.0, 1.0),
        normal_w=None,
        product_limit=3,
        branch_calls=None,
        random_q=(0.25, 0.75),
    ):
        self.uniform_q = tuple(uniform_q)
        self.angular_q = tuple(angular_q) if angular_q is not None else None
        self.normal_z = tuple(normal_z)
        self.normal_w = tuple(normal_w) if normal_w is not None else tuple([1 / len(normal_z)] * len(normal_z))
        self.product_limit = product_limit
        self.branch_calls = branch_calls
        self.random_q = tuple(random_q)

    def _menu(self, values, weights, shape):
        """values: per-element candidate list (same for all elements) -> list of (array, weight)."""
        n = int(np.prod(shape)) if shape != () else 1
        k = len(values)
        out = []
        if n <= self.product_limit:
            for combo in itertools.product(range(k), repeat=n):
                arr = np.array([values[c] for c in combo], dtype=float).reshape(shape)
                w = 1.0
                for c in combo:
                    w *= weights[c]
                out.append((arr, w))
        else:
            for a in range(k):
                arr = np.array([values[(a + j) % k] for j in range(n)], dtype=float).reshape(shape)
                out.append((arr, 1.0 / k))
        return out

    def uniform(self, lo, hi, shape):
        lo_f, hi_f = float(lo), float(hi)
        ang = (
            self.angular_q is not None
            and lo_f == 0.0
            and (abs(hi_f - TWO_PI) < 1e-12 or abs(hi_f - 360.0) < 1e-12)
        )
        qs = self.angular_q if ang else self.uniform_q
        vals = [lo_f + (hi_f - lo_f) * q for q in qs]
        return self._menu(vals, [1.0 / len(qs)] * len(qs), shape)

    def normal(self, shape):
        return self._menu(list(self.normal_z), list(self.normal_w), shape)

    def random_array(self, shape):
        return self._menu(list(self.random_q), [1.0 / len(self.random_q)] * len(self.random_q), shape)


def _shape(size):
    if size is None:
        return ()
    if isinstance(size, (int, np.integer)):
        return (int(size),)
    return tuple(int(s) for s in size)


class ChoiceRNG:
    """Choice-point generator (see module docstring)."""

    def __init__(self, chooser: Chooser, policy: Policy | None = None):
        self.chooser = chooser
        self.policy = policy or Policy()
        self.bit_generator = _FakeBitGen()
        self.uncaptured = 0
        self.thresholds: list[float] = []
        self.calls: list[tuple] = []
        self._seg_calls = {}

    # ------------------------------------------------------------------ helpers
    def _branching(self) -> bool:
        bc = self.policy.branch_calls
        if bc is None:
            return True
        seg = self.chooser.seg
        c = self._seg_calls.get(seg, 0)
        self._seg_calls[seg] = c + 1
        return c < bc

    def _pick_array(self, kind, menu, scalar):
        if not self._branching():
            menu = menu[:1]
            weights = [1.0]
        else:
            weights = [w for _, w in menu]
        i = self.chooser.pick(kind, len(menu), weights, [m[0] for m in menu])
        arr = menu[i][0]
        if scalar:
            return float(arr.reshape(-1)[0])
        return arr.copy()

    # ------------------------------------------------------------------ Generator surface
    def random(self, size=None, dtype=np.float64, out=None):
        self.calls.append(("random", size))
        if size is None:
            self.uncaptured += 1
            return AcceptDraw(self)
        shape = _shape(size)
        return self._pick_array("random", self.policy.random_array(shape), False)

    def uniform(self, low=0.0, high=1.0, size=None):
        self.calls.append(("uniform", low, high, size))
        shape = _shape(size)
        return self._pick_array("uniform", self.policy.uniform(low, high, shape), size is None)

    def standard_normal(self, size=None, dtype=np.float64, out=None):
        self.calls.append(("standard_normal", size))
        shape = _shape(size)
        return self._pick_array("normal", self.policy.normal(shape), size is None)

    def normal(self, loc=0.0, scale=1.0, size=None):
        z = self.standard_normal(size)
        return loc + scale * z

    def integers(self, low, high=None, size=None, dtype=np.int64, endpoint=False):
        self.calls.append(("integers", low, high, size))
        if high is None:
            low, high = 0, low
        hi = int(high) + (1 if endpoint else 0)
        vals = list(range(int(low), hi))
        if size is None:
            i = self.chooser.pick("integers", len(vals), None, vals)
            return np.int64(vals[i])
        shape = _shape(size)
        n = int(np.prod(shape))
        combos = list(itertools.product(vals, repeat=n))
        i = self.chooser.pick("integers", len(combos), None, combos)
        return np.array(combos[i], dtype=np.int64).reshape(shape)

    def choice(self, a, size=None, replace=True, p=None, axis=0, shuffle=True):
        self.calls.append(("choice", size, replace))
        if isinstance(a, (int, np.integer)):
            arr = np.arange(int(a))
        else:
            arr = np.asarray(a)
        n = len(arr)
        if p is not None:
            pv = np.asarray(p, dtype=float)
            if pv.shape != (n,):
                raise ValueError("'a' and 'p' must have same size")
            if np.isnan(pv).any():
                raise ValueError("probabilities contain NaN")
            if (pv < 0).any():
                raise ValueError("probabilities are not non-negative")
            if abs(pv.sum() - 1.0) > 1e-8:
                raise ValueError("probabilities do not sum to 1")
        else:
            pv = np.full(n, 1.0 / n) if n else np.zeros(0)
        if size is None:
            if n == 0:
                raise ValueError("'a' cannot be empty unless no samples are taken")
            idx = [i for i in range(n) if pv[i] > 0]
            k = self.chooser.pick("choice", len(idx), [pv[i] for i in idx], [arr[i] for i in idx])
            return arr[idx[k]]
        shape = _shape(size)
        m = int(np.prod(shape))
        if m == 0:
            return arr[:0].reshape(shape) if arr.ndim == 1 else arr[:0]
        if n == 0:
            raise ValueError("'a' cannot be empty unless no samples are taken")
        if replace:
            idx = [i for i in range(n) if pv[i] > 0]
            combos = list(itertools.product(idx, repeat=m))
            ws = [float(np.prod([pv[i] for i in c])) for c in combos]
        else:
            if m > n:
                raise ValueError("Cannot take a larger sample than population when replace is False")
            if p is not None:
                idx = [i for i in range(n) if pv[i] > 0]
                if m > len(idx):
                    raise ValueError("Fewer non-zero entries in p than size")
                combos, ws = [], []
                for c in itertools.permutations(idx, m):
                    w, rest = 1.0, 1.0
                    for i in c:
                        w *= pv[i] / rest
                        rest -= pv[i]
                    combos.append(c)
                    ws.append(w)
            else:
                combos = list(itertools.permutations(range(n), m))
                ws = [1.0 / len(combos)] * len(combos)
        k = self.chooser.pick("choice", len(combos), ws, combos)
        return arr[list(combos[k])].reshape(shape) if arr.ndim == 1 else arr[list(combos[k])]

    def permutation(self, x, axis=0):
        self.calls.append(("permutation",))
        arr = np.arange(x) if isinstance(x, (int, np.integer)) else np.asarray(x)
        perms = list(itertools.permutations(range(len(arr))))
        k = self.chooser.pick("permutation", len(perms), None, perms)
        return arr[list(perms[k])]

    def shuffle(self, x, axis=0):
        x[:] = self.permutation(x)

    def __getattr__(self, name):
        raise HarnessError(f"generator method {name!r} is not modelled by ChoiceRNG")


def install(sim, rng) -> None:
    """Replace the simulation's generator (driver and context) by ``rng``."""
    sim._rng = rng
    ctx = getattr(sim, "context", None)
    if ctx is not None:
        ctx.rng = rng


class ScriptedRNG:
    """Returns prescribed answers in order (exact floats).  ``script`` items are consumed one
    per call; array calls take an array-like item broadcast to the requested shape."""

    def __init__(self, script):
        self.script = list(script)
        self.bit_generator = _FakeBitGen()
        self.calls = []

    def _next(self, what):
        if not self.script:
            raise HarnessError(f"ScriptedRNG exhausted at {what}")
        return self.script.pop(0)

    def random(self, size=None, dtype=np.float64, out=None):
        v = self._next("random")
        self.calls.append(("random", size))
        if size is None:
            return float(v)
        return np.broadcast_to(np.asarray(v, dtype=float), _shape(size)).copy()

    def uniform(self, low=0.0, high=1.0, size=None):
        v = self._next("uniform")
        self.calls.append(("uniform", low, high, size))
        if size is None:
            return float(v)
        return np.broadcast_to(np.asarray(v, dtype=float), _shape(size)).copy()

    def standard_normal(self, size=None, dtype=np.float64, out=None):
        v = self._next("standard_normal")
        if size is None:
            return float(v)
        return np.broadcast_to(np.asarray(v, dtype=float), _shape(size)).copy()

    def choice(self, a, size=None, replace=True, p=None, axis=0, shuffle=True):
        v = self._next("choice")
        arr = np.arange(a) if isinstance(a, (int, np.integer)) else np.asarray(a)
        if size is None:
            return arr[int(v)]
        return arr[np.asarray(v, dtype=int)]


class RecordingRNG:
    """Forwards to a real Generator and logs every call."""

    def __init__(self, gen):
        self._gen = gen
        self.log = []

    @property
    def bit_generator(self):
        return self._gen.bit_generator

    def __getattr__(self, name):
        target = getattr(self._gen, name)
        if not callable(target):
            return target

        def wrapper(*a, **k):
            r = target(*a, **k)
            self.log.append((name, r))
            return r

        return wrapper


class QuantileRNG:
    """Deterministic generator answering continuous draws from a prescribed list of quantiles
    (consumed element by element, in call order): uniform -> lo + (hi-lo)*q, standard_normal ->
    Phi^-1(q).  Used for product-grid quadrature over the generator's law."""

    def __init__(self, qs):
        self.qs = list(qs)
        self.i = 0
        self.bit_generator = _FakeBitGen()

    def _take(self, n):
        if self.i + n > len(self.qs):
            raise HarnessError(f"QuantileRNG exhausted: needs {self.i + n} quantiles, has {len(self.qs)}")
        out = np.array(self.qs[self.i : self.i + n], dtype=float)
        self.i += n
        return out

    def uniform(self, low=0.0, high=1.0, size=None):
        shape = _shape(size)
        n = int(np.prod(shape)) if shape != () else 1
        q = self._take(n)
        v = low + (high - low) * q
        # numpy's uniform never returns ``high``
        v = np.where(v >= high, np.nextafter(high, low), v) if high > low else v
        return float(v[0]) if size is None else v.reshape(shape)

    def random(self, size=None, dtype=np.float64, out=None):
        return self.uniform(0.0, 1.0, size)

    def standard_normal(self, size=None, dtype=np.float64, out=None):
        from scipy.special import ndtri

        shape = _shape(size)
        n = int(np.prod(shape)) if shape != () else 1
        v = ndtri(self._take(n))
        return float(v[0]) if size is None else v.reshape(shape)

    @property
    def consumed(self):
        return self.i
