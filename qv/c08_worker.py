"""Runs in a FRESH interpreter: import one quansino module first, then the rest of the package,
then round-trip every concrete serializable class found by introspection.  Prints one JSON
document on stdout.  usage: python -m qv.c08_worker <first-module> [second-module]"""

from __future__ import annotations

import importlib
import inspect
import json
import pkgutil
import sys
import traceback
import warnings

warnings.simplefilter("ignore")
out = {"first": sys.argv[1:], "import_errors": [], "problems": [], "classes": [], "roundtrips": 0, "uncovered_params": [], "params_checked": 0}


def problem(sig, what):
    out["problems"].append({"signature": sig, "what": what})


argv = sys.argv[1:]
WRITE = READ = FAMILY = None
if "--write" in argv:
    WRITE = argv[argv.index("--write") + 1]
    del argv[argv.index("--write") : argv.index("--write") + 2]
if "--read" in argv:
    READ = argv[argv.index("--read") + 1]
    del argv[argv.index("--read") : argv.index("--read") + 2]
if "--family" in argv:
    FAMILY = argv[argv.index("--family") + 1]
    del argv[argv.index("--family") : argv.index("--family") + 2]
firsts = argv
out["first"] = firsts
ENTRIES = []
ok = True
for m in firsts:
    try:
        importlib.import_module(m)
    except Exception as e:  # noqa: BLE001
        tb = traceback.extract_tb(e.__traceback__)
        cyc = "circular" in str(e) or "partially initialized" in str(e)
        out["import_errors"].append({"module": m, "error": f"{type(e).__name__}: {e}"[:300], "circular": cyc})
        ok = False
        break
if not ok:
    print(json.dumps(out))
    sys.exit(0)

if READ:
    # reader mode: only the first import(s) and the sub-package that defines the family have been
    # imported; everything needed to rebuild the family's objects must be registered by that
    from ase.io.jsonio import decode as _decode
    from ase.io.jsonio import encode as _encode

    try:
        importlib.import_module(f"quansino.{FAMILY}")
    except Exception as e:  # noqa: BLE001
        out["import_errors"].append({"module": f"quansino.{FAMILY}", "error": f"{type(e).__name__}: {e}"[:300], "circular": "circular" in str(e)})
        print(json.dumps(out))
        sys.exit(0)
    from quansino.registry import get_class as _get_class

    for ent in json.load(open(READ)):
        if ent["family"] != FAMILY:
            continue
        out["roundtrips"] += 1
        try:
            d = _decode(ent["text"])
            cls = _get_class(d["name"])
            obj = cls.from_dict(d)
            if _encode(obj.to_dict()) != ent["text"]:
                problem(f"C08/{ent['cls']}/rebuilt-after-partial-import/dictionary-differs", f"{ent['tag']} after importing only {firsts} + quansino.{FAMILY}")
            if hasattr(obj, "close"):
                obj.close()
        except Exception as e:  # noqa: BLE001
            problem(f"C08/{ent['cls']}/rebuilt-after-partial-import/exception:{type(e).__name__}", f"{ent['tag']} after importing only {firsts} + quansino.{FAMILY}: {e}"[:300])
    print(json.dumps(out))
    sys.exit(0)

import quansino  # noqa: E402

modules = []
for mi in pkgutil.walk_packages(quansino.__path__, "quansino."):
    try:
        modules.append(importlib.import_module(mi.name))
    except Exception as e:  # noqa: BLE001
        out["import_errors"].append({"module": mi.name, "error": f"{type(e).__name__}: {e}"[:300], "circular": False, "after": firsts})
out["modules"] = len(modules)

import numpy as np  # noqa: E402
from ase.atoms import Atoms  # noqa: E402
from ase.io.jsonio import decode, encode  # noqa: E402

from qv.snapshot import obj_snapshot  # noqa: E402

from quansino.registry import get_class  # noqa: E402

# ------------------------------------------------------------------ discovery
classes = {}
for mod in modules:
    for name, cls in vars(mod).items():
        if not inspect.isclass(cls) or cls.__module__ != mod.__name__:
            continue
        if not (callable(getattr(cls, "to_dict", None)) and callable(getattr(cls, "from_dict", None))):
            continue
        if inspect.isabstract(cls) or getattr(cls, "_is_protocol", False):
            continue
        if cls.__name__.startswith("Base"):
            continue  # base classes are not shipped components
        stub = False
        for meth in ("calculate", "integrate", "evaluate"):
            for k in cls.__mro__:
                if meth in k.__dict__:
                    stub = stub or k.__name__.startswith("Base")
                    break
        if stub:
            continue  # only inherits a base-class stub of its protocol method
        classes[f"{cls.__module__}.{cls.__name__}"] = cls

DRIVER_BASES = ()
try:
    from quansino.mc.driver import Driver

    DRIVER_BASES = (Driver,)
except Exception:  # noqa: BLE001
    pass

MASK = np.array([[True, False, True], [False, True, True], [True, True, False]])
TRANSIENT = {"to_displace_labels", "displaced_labels", "to_add_atoms", "to_delete_label", "context", "number_of_moved_particles", "is_updatable", "unique_labels", "strain_tensor"}


def op_family(cls):
    """Which kind of operation a move class works with (from its default operation)."""
    try:
        probe = cls.__new__(cls)
        d = cls.default_operation.fget(probe)
    except Exception:  # noqa: BLE001
        return "displacement"
    if hasattr(d, "integrate"):
        return "integrator"
    if hasattr(d, "max_value"):
        return "deformation"
    return "displacement"


def value_for(cls, pname, depth=0):
    from quansino.integrators.displacement import Verlet
    from quansino.mc.criteria import CanonicalCriteria
    from quansino.moves.displacement import DisplacementMove
    from quansino.operations.cell import ShapeDeformation
    from quansino.operations.displacement import Ball, Box

    if pname == "labels":
        return np.array([2, -1, 2, 0])
    if pname == "operation":
        fam = op_family(cls)
        if fam == "integrator":
            return Verlet(dt=0.7, max_steps=7, apply_constraints=False)
        if fam == "deformation":
            return ShapeDeformation(0.07, mask=MASK.copy())
        return Box(0.37) + Ball(0.21) if depth == 0 and cls.__name__ == "DisplacementMove" else Box(0.37)
    simple = {
        "apply_constraints": False,
        "bias_towards_insert": 0.3,
        "scale_atoms": False,
        "step_size": 0.37,
        "max_value": 0.07,
        "dt": 0.7,
        "max_steps": 7,
        "interval": 3,
        "probability": 0.25,
        "minimum_count": 1,
    }
    if pname in simple:
        return simple[pname]
    if pname == "mask":
        return MASK.copy()
    if pname == "moves":
        a = DisplacementMove(np.array([0, 1, 1]), Box(0.3), apply_constraints=False)
        b = DisplacementMove(np.array([0, 1, 1]))
        if depth == 0:
            inner = a + b  # nesting depth 2
            return [a, inner] if cls.__name__ == "CompositeMove" else [a, b]
        return [a, b]
    if pname == "operations":
        ops = [Ball(0.2), Box(0.3)]
        if depth == 0:
            ops.append(Ball(0.1) + Box(0.4))
        return ops
    if pname == "move":
        return DisplacementMove(np.array([0, 1]), Box(0.3))
    if pname == "criteria":
        return CanonicalCriteria()
    return None


def attr_names(cls):
    import re

    names = set()
    for k in cls.__mro__:
        doc = k.__dict__.get("__doc__") or ""
        m = re.search(r"Attributes\s*\n\s*-+\s*\n(.*?)(?:\n\s*\n\s*[A-Z][a-z]+\s*\n\s*-+|\Z)", doc, re.S)
        if m:
            for line in m.group(1).splitlines():
                mm = re.match(r"^\s{0,8}([A-Za-z_][A-Za-z0-9_]*)\s*:", line)
                if mm:
                    names.add(mm.group(1))
    return names


# boundary values: falsy numbers and "another class's default" (each is a legal setting)
EDGE = {"bias_towards_insert": [0.0, 1.0], "probability": [0.0], "minimum_count": [0, 2], "interval": [1, 7], "step_size": [1.0, 2.5], "max_value": [1.0], "max_steps": [1], "dt": [1.0, 0.1234567, 4e-7], "apply_constraints": [True], "scale_atoms": [True]}


def construct(cls, which):
    """which: None (defaults), a parameter name (only that one non-default), 'ALL', or
    ('EDGE', pname, value): that parameter at a boundary value."""
    sig = inspect.signature(cls.__init__)
    kwargs = {}
    edge = which if isinstance(which, tuple) else None
    for pname, p in list(sig.parameters.items())[1:]:
        if p.kind in (p.VAR_POSITIONAL, p.VAR_KEYWORD):
            continue
        required = p.default is inspect._empty
        if edge and pname == edge[1]:
            kwargs[pname] = edge[2]
            continue
        if required or which == "ALL" or which == pname:
            v = value_for(cls, pname)
            if v is None:
                if required:
                    return None, f"required parameter {pname!r} has no entry in the alphabet"
                if which in ("ALL", pname) and pname not in ("distribution",):
                    out["uncovered_params"].append(f"{cls.__name__}.{pname}")
                continue
            kwargs[pname] = v
    return cls(**kwargs), None


def roundtrip(cls, obj, tag, tunables):
    out["roundtrips"] += 1
    cname = cls.__name__
    try:
        d1 = obj.to_dict()
        text = encode(d1)
        d2 = decode(text)
    except Exception as e:  # noqa: BLE001
        problem(f"C08/{cname}/to_dict-or-json/exception:{type(e).__name__}", f"{tag}: {e}"[:300])
        return
    ENTRIES.append({"family": cls.__module__.split(".")[1], "cls": cname, "tag": tag, "text": text})
    try:
        reg = get_class(d2["name"])
    except Exception as e:  # noqa: BLE001
        problem(f"C08/{cname}/not-registered", f"{tag}: name {d2.get('name')!r}: {type(e).__name__}")
        return
    if reg is not cls:
        problem(f"C08/{cname}/registered-name-gives-other-class", f"{tag}: {d2['name']!r} -> {reg.__name__}")
        return
    try:
        obj2 = reg.from_dict(d2)
    except Exception as e:  # noqa: BLE001
        problem(f"C08/{cname}/from_dict/exception:{type(e).__name__}", f"{tag}: {e}"[:300])
        return
    if type(obj2) is not cls:
        problem(f"C08/{cname}/rebuilt-type-differs", f"{tag}: {type(obj2).__name__}")
        return
    # the loaded dictionary is data: rebuilding must not consume or rewrite it (a second replica from the
    # same dictionary must be possible and equal)
    try:
        obj2b = reg.from_dict(d2)
        if encode(obj2b.to_dict()) != encode(obj2.to_dict()):
            problem(f"C08/{cname}/second-from_dict-of-same-dictionary-differs", tag)
    except Exception as e:  # noqa: BLE001
        problem(f"C08/{cname}/second-from_dict-of-same-dictionary/exception:{type(e).__name__}", f"{tag}: {e}"[:300])
    names = [p for p in list(inspect.signature(cls.__init__).parameters)[1:]] + sorted(attr_names(cls)) + tunables
    seen = set()
    for n in names:
        if n in seen or n in TRANSIENT:
            continue
        seen.add(n)
        if not hasattr(obj, n):
            continue
        a = getattr(obj, n)
        if callable(a) and not hasattr(a, "to_dict"):
            continue
        out["params_checked"] += 1
        try:
            b = getattr(obj2, n)
        except AttributeError:
            problem(f"C08/{cname}/attribute-lost:{n}", tag)
            continue
        if obj_snapshot(a) != obj_snapshot(b):
            problem(f"C08/{cname}/value-not-preserved:{n}", f"{tag}: {str(a)[:80]!r} became {str(b)[:80]!r}")
    try:
        text3 = encode(obj2.to_dict())
    except Exception as e:  # noqa: BLE001
        problem(f"C08/{cname}/re-serialisation/exception:{type(e).__name__}", tag)
        return
    if text3 != text:
        problem(f"C08/{cname}/re-serialisation-differs", f"{tag}")


TUNABLES = {"max_attempts": 7, "default_label": 0}
for qual, cls in sorted(classes.items()):
    if DRIVER_BASES and issubclass(cls, DRIVER_BASES):
        continue  # simulation level, below
    out["classes"].append(qual)
    try:
        sig = inspect.signature(cls.__init__)
    except (TypeError, ValueError):
        continue
    params = [n for n, p in list(sig.parameters.items())[1:] if p.kind not in (p.VAR_POSITIONAL, p.VAR_KEYWORD)]
    for which in [None, "ALL", *params]:
        try:
            obj, why = construct(cls, which)
        except Exception as e:  # noqa: BLE001
            problem(f"C08/{cls.__name__}/constructor/exception:{type(e).__name__}", f"{which}: {e}"[:200])
            continue
        if obj is None:
            out["uncovered_params"].append(f"{cls.__name__}: {why}")
            break
        tun = []
        if which == "ALL":
            for t, v in TUNABLES.items():
                if hasattr(obj, t):
                    try:
                        setattr(obj, t, v)
                        tun.append(t)
                    except Exception:  # noqa: BLE001
                        pass
        roundtrip(cls, obj, f"non-default: {which}", tun)
    # boundary values of single parameters, and post-construction tunables at several values
    for pname in params:
        for ev in EDGE.get(pname, []):
            try:
                obj, why = construct(cls, ("EDGE", pname, ev))
            except Exception:  # noqa: BLE001
                continue  # not a legal value for this class
            if obj is not None:
                roundtrip(cls, obj, f"boundary value: {pname}={ev!r}", [])
    for t, vals in (("max_attempts", [1, 10, 10000]), ("default_label", [-1, 3])):
        for v in vals:
            try:
                obj, why = construct(cls, None)
            except Exception:  # noqa: BLE001
                break
            if obj is None or not hasattr(obj, t):
                break
            try:
                setattr(obj, t, v)
            except Exception:  # noqa: BLE001
                break
            roundtrip(cls, obj, f"tunable set after construction: {t}={v!r}", [t])

# ------------------------------------------------------------------ simulation level
from qv import calcs  # noqa: E402


def sim_settings(sim):
    vals = {}
    for n in ("temperature", "pressure", "external_stress", "chemical_potential", "number_of_exchange_particles", "accessible_volume", "exchange_atoms", "max_cycles", "_seed", "step_count", "logging_interval", "logging_mode"):
        if hasattr(sim, n):
            vals[n] = obj_snapshot(getattr(sim, n))
    vals["rng_state"] = json.dumps(sim._rng.bit_generator.state, sort_keys=True, default=str)
    vals["moves"] = list(sim.moves) if hasattr(sim, "moves") else None  # order matters: it is the order the scheduler draws from
    for name, st in (sim.moves.items() if hasattr(sim, "moves") else ()):
        vals[f"move[{name}].interval"] = obj_snapshot(st.interval)
        vals[f"move[{name}].probability"] = obj_snapshot(float(st.probability))
        vals[f"move[{name}].minimum_count"] = obj_snapshot(int(st.minimum_count))
        vals[f"move[{name}].criteria"] = type(st.criteria).__name__
        vals[f"move[{name}].move"] = encode(st.move.to_dict())
    return vals


def make_sim(kind):
    from quansino.integrators.displacement import Verlet
    from quansino.mc.canonical import Canonical, HamiltonianCanonical
    from quansino.mc.core import MonteCarlo
    from quansino.mc.gcmc import GrandCanonical
    from quansino.mc.isobaric import Isobaric
    from quansino.mc.isotension import Isotension
    from quansino.moves.cell import CellMove
    from quansino.moves.displacement import DisplacementMove, HamiltonianDisplacementMove
    from quansino.moves.exchange import ExchangeMove
    from quansino.operations.cell import AnisotropicDeformation
    from quansino.operations.displacement import Box

    atoms = Atoms("Ar3", positions=[[1, 1.2, 0.9], [3.1, 2.2, 4.0], [4.4, 4.9, 2.1]], cell=[6, 6.5, 7], pbc=True)
    atoms.calc = calcs.PairSoft(centre=(3, 3, 3))
    common = dict(max_cycles=2, seed=1234567, logging_interval=3)
    if kind == "MonteCarlo":
        sim = MonteCarlo(atoms, **common)
    elif kind == "Canonical":
        sim = Canonical(atoms, temperature=777.0, **common)
        sim.add_move(DisplacementMove(np.arange(3), Box(0.3)), name="wide", interval=2, probability=0.4)
        sim.add_move(DisplacementMove(np.arange(3), Box(0.1)), name="narrow", probability=0.6, minimum_count=1)
        sim.add_move(DisplacementMove(np.arange(3), Box(0.2)), name="parked", probability=0.0)  # a move the user has switched off
    elif kind == "HamiltonianCanonical":
        sim = HamiltonianCanonical(atoms, temperature=777.0, **common)
        sim.add_move(HamiltonianDisplacementMove(operation=Verlet(dt=0.7, max_steps=3)), name="h")
    elif kind == "Isobaric":
        sim = Isobaric(atoms, temperature=777.0, pressure=0.013, **common)
        sim.add_move(CellMove(AnisotropicDeformation(0.03, mask=MASK.copy()), scale_atoms=False), name="c")
    elif kind == "Isotension":
        sim = Isotension(atoms, temperature=777.0, pressure=0.013, external_stress=np.array([[0.01, 0.002, 0], [0.002, 0.02, 0], [0, 0, 0.005]]), **common)
        sim.add_move(CellMove(AnisotropicDeformation(0.03)), name="c")
    elif kind == "GrandCanonical":
        sim = GrandCanonical(atoms, exchange_atoms=Atoms("Kr"), temperature=777.0, chemical_potential=-0.37, number_of_exchange_particles=2, **common)
        sim.accessible_volume = 123.0
        sim.add_move(ExchangeMove(np.array([0, 1, -1]), bias_towards_insert=0.4), name="e")
    else:
        raise ValueError(kind)
    sim.step_count = 0
    return sim


for kind in ("MonteCarlo", "Canonical", "HamiltonianCanonical", "Isobaric", "Isotension", "GrandCanonical"):
    for route in ("to_dict", "restart-file"):
        out["roundtrips"] += 1
        tag = f"{kind} via {route}"
        try:
            sim = make_sim(kind)
            sim.run(2)  # advances the generator and the step counter
            want = sim_settings(sim)
            if route == "to_dict":
                text = encode(sim.to_dict())
                ENTRIES.append({"family": "mc", "cls": kind, "tag": f"simulation {kind}", "text": text})
                data = decode(text)
            else:
                import io

                from ase.io.jsonio import read_json

                from quansino.io.restart import RestartObserver

                buf = io.StringIO()
                obs = RestartObserver(sim, buf, interval=1, mode="w")
                obs()
                data = read_json(io.StringIO(buf.getvalue()))
            sim2 = type(sim).from_dict(data)
            got = sim_settings(sim2)
            for k in want:
                out["params_checked"] += 1
                if want[k] != got.get(k):
                    problem(f"C08/simulation/{kind}/{route}/setting-not-preserved:{k}", f"{tag}: {str(want[k])[:80]} became {str(got.get(k))[:80]}")
            sim.close()
            sim2.close()
        except Exception as e:  # noqa: BLE001
            tb = traceback.extract_tb(e.__traceback__)
            where = next((f"{fr.filename.split('/quansino/')[-1]}:{fr.name}" for fr in reversed(tb) if "/quansino/" in fr.filename), "")
            problem(f"C08/simulation/{kind}/{route}/exception:{type(e).__name__}@{where}", f"{tag}: {e}"[:300])

if WRITE:
    json.dump(ENTRIES, open(WRITE, "w"))
print(json.dumps(out))
