"""C11 - a displacement move moves only the chosen particle.

Every label array of length n <= 4 over {-1,0,1,2,5} x operations x {random, pre-selected}
target, with every answer of the particle choice enumerated, on the real ``DisplacementMove``
and on composites ``D*n`` / ``D+...+D`` (n = 1..3).
"""

from __future__ import annotations

import itertools

import numpy as np
from ase.atoms import Atoms

from qv.core import Chooser, Stats, explore, js
from qv.rngx import ChoiceRNG, Policy
from qv.runner import Acc, Report, pmap

PID = "C11"
ALPHA = (-3, -1, 0, 1, 2, 5)
POLICY = dict(uniform_q=(0.3, 0.8), angular_q=None, product_limit=0, branch_calls=0)
TOL = 1e-12


def make_atoms(n):
    pos = np.array([[0.9 + 1.1 * i, 1.3 + 0.7 * ((2 * i) % 3), 0.8 + 0.45 * i * i] for i in range(n)])
    syms = ["Cu", "H", "O", "Ar", "N"][:n]
    return Atoms(syms, positions=pos, cell=[[7, 0, 0], [0.8, 6.5, 0], [0.3, 0.6, 7.2]], pbc=True)


def make_op(name, log):
    from quansino.operations.displacement import Ball, Box, Rotation, Translation

    op = {"box": lambda: Box(0.4), "ball": lambda: Ball(0.4), "trans": lambda: Translation(), "rot": lambda: Rotation()}[name]()
    inner = op.calculate

    class Rec(type(op)):
        __slots__ = ()

        def calculate(self, context):
            r = inner(context)
            log.append(np.array(r, dtype=float, copy=True))
            return r

    op.__class__ = Rec
    return op


def check_single(labels, opname, viol_add, counters):
    from quansino.mc.contexts import DisplacementContext
    from quansino.moves.displacement import DisplacementMove

    labels = np.array(labels, dtype=int)
    n = len(labels)
    uniq = sorted({int(l) for l in labels if l >= 0})
    for pre in [None] + uniq:

        def run(ch):
            atoms = make_atoms(n)
            log = []
            ctx = DisplacementContext(atoms, ChoiceRNG(ch, Policy(**POLICY)))
            mv = DisplacementMove(labels.copy(), make_op(opname, log))
            mv.max_attempts = 2
            mv.check_move = lambda *_a, **_k: ch.pick("user", 2, None, ["check-ok", "check-veto"]) == 0
            if pre is not None:
                mv.to_displace_labels = pre
            before = atoms.positions.copy()
            try:
                res = mv(ctx)
                err = None
            except Exception as e:  # noqa: BLE001
                res, err = None, f"{type(e).__name__}: {e}"
            return res, err, before, atoms.positions.copy(), log, np.asarray(mv.labels).copy()

        st = Stats()
        for ch, (res, err, before, after, log, labs_after) in explore(run, stats=st):
            counters["executions"] += 1
            counters["transitions"] += len(ch.trace)
            mode = "random" if pre is None else "preselected"
            rep = {"check": PID, "func": "task_single_one", "arg": {"labels": labels.tolist(), "op": opname, "pre": pre, "only": ch.choices}}
            where = f"labels {labels.tolist()} op {opname} target {mode}"
            if err:
                viol_add(f"C11/single/{opname}/{mode}/exception", f"{err}; {where}", rep)
                continue
            moved = np.flatnonzero(np.abs(after - before).max(axis=1) > 0) if n else np.array([], int)
            if not uniq:
                counters["nontrivial"] += 1
                if res or len(moved):
                    viol_add(f"C11/single/{opname}/no-eligible-particle", f"returned {res!r}, moved atoms {moved.tolist()}; {where}", rep)
                continue
            # which label was chosen
            if pre is None:
                pts = [p for p in ch.trace if p.kind == "choice"]
                if len(pts) != 1:
                    viol_add(f"C11/single/{opname}/random/selection-draws", f"{len(pts)} particle-choice draws; {where}", rep)
                    continue
                menu_ok = pts[0].n == len(uniq) and abs(pts[0].weight - 1.0 / len(uniq)) < 1e-12
                if not menu_ok:
                    viol_add(f"C11/single/{opname}/random/selection-not-uniform-over-eligible", f"choice among {pts[0].n} candidates with weight {pts[0].weight}; eligible {uniq}; {where}", rep)
                    continue
                chosen = int(pts[0].label)
                if chosen not in uniq:
                    viol_add(f"C11/single/{opname}/random/selected-ineligible-label", f"chose {chosen}; {where}", rep)
                    continue
            else:
                chosen = pre
            target = np.flatnonzero(labels == chosen)
            if len(target) > 1 or (labels < 0).any():
                counters["nontrivial"] += 1
            checks = [p.idx for p in ch.trace if p.kind == "user"]
            vetoed_all = len(checks) == 2 and all(c == 1 for c in checks)
            if vetoed_all:
                if res or len(moved):
                    viol_add(f"C11/single/{opname}/{mode}/all-attempts-vetoed-but-changed", f"returned {res!r}, moved atoms {moved.tolist()}; {where}", rep)
                continue
            if not res:
                viol_add(f"C11/single/{opname}/{mode}/reported-failure", f"returned {res!r} although label {chosen} is eligible; {where}", rep)
                continue
            extra = sorted(set(moved.tolist()) - set(target.tolist()))
            if extra:
                kind = "negative-label-atom-moved" if any(labels[i] < 0 for i in extra) else "other-particle-moved"
                viol_add(f"C11/single/{opname}/{mode}/{kind}", f"atoms {extra} moved, selected label {chosen} owns {target.tolist()}; {where}", rep)
                continue
            if len(log) != len(checks):
                viol_add(f"C11/single/{opname}/{mode}/operation-calls", f"{len(log)} operation results for {len(checks)} attempts; {where}", rep)
                continue
            log = [log[-1]]  # the accepted attempt: the displacement must be that single result
            want = np.broadcast_to(log[0], (len(target), 3)) if log[0].shape[0] in (1, len(target)) else None
            got = after[target] - before[target]
            if want is None or not np.allclose(got, want, atol=TOL, rtol=0):
                viol_add(f"C11/single/{opname}/{mode}/not-all-by-common-result", f"displacements {js(got)} vs operation result {js(log[0])}; selected atoms {target.tolist()}; {where}", rep)
                continue
            if not np.array_equal(labs_after, labels):
                viol_add(f"C11/single/{opname}/{mode}/labels-changed", f"labels became {labs_after.tolist()}; {where}", rep)


def check_composite(labels, n_moves, form, viol_add, counters):
    from quansino.mc.contexts import DisplacementContext
    from quansino.moves.displacement import DisplacementMove
    from quansino.operations.displacement import Box

    labels = np.array(labels, dtype=int)
    n = len(labels)
    uniq = sorted({int(l) for l in labels if l >= 0})

    def run(ch):
        atoms = make_atoms(n)
        logs = []
        ctx = DisplacementContext(atoms, ChoiceRNG(ch, Policy(**POLICY)))
        if form == "mul":
            comp = DisplacementMove(labels.copy(), make_op("box", logs))
            comp = comp * n_moves if n_moves > 1 else comp * 1
        else:
            ms = [DisplacementMove(labels.copy(), make_op("box" if i % 2 == 0 else "ball", logs)) for i in range(n_moves)]
            comp = ms[0] * 1 if n_moves == 1 else ms[0]
            for m in ms[1:]:
                comp = comp + m
        before = atoms.positions.copy()
        try:
            res = comp(ctx)
            err = None
        except Exception as e:  # noqa: BLE001
            res, err = None, f"{type(e).__name__}: {e}"
        return res, err, before, atoms.positions.copy(), logs, list(getattr(comp, "displaced_labels", [])), getattr(comp, "number_of_moved_particles", None)

    for ch, (res, err, before, after, logs, displaced, nmoved) in explore(run):
        counters["executions"] += 1
        counters["transitions"] += len(ch.trace)
        rep = {"check": PID, "func": "task_comp_one", "arg": {"labels": labels.tolist(), "n_moves": n_moves, "form": form, "only": ch.choices}}
        where = f"labels {labels.tolist()} composite {form} of {n_moves}"
        if err:
            viol_add(f"C11/composite/{form}/exception", f"{err}; {where}", rep)
            continue
        if n_moves > 1 and len(uniq) > 1:
            counters["nontrivial"] += 1
        moved_atoms = np.flatnonzero(np.abs(after - before).max(axis=1) > 0) if n else np.array([], int)
        moved_labels = sorted({int(labels[i]) for i in moved_atoms})
        real = [d for d in displaced if d is not None]
        if len(set(int(d) for d in real)) != len(real):
            viol_add(f"C11/composite/{form}/particle-displaced-twice", f"displaced labels {js(displaced)}; {where}", rep)
            continue
        expect = min(n_moves, len(uniq))
        if len(real) != expect:
            viol_add(f"C11/composite/{form}/moved-count", f"moved {len(real)} particles, expected min({n_moves},{len(uniq)}); {where}", rep)
            continue
        if nmoved != len(moved_labels) or sorted(int(d) for d in real) != moved_labels:
            viol_add(f"C11/composite/{form}/report-differs-from-moved", f"reports {nmoved} moved / labels {js(real)}, positions show labels {moved_labels}; {where}", rep)
            continue
        if any(labels[i] < 0 for i in moved_atoms):
            viol_add(f"C11/composite/{form}/negative-label-atom-moved", f"atoms {moved_atoms.tolist()}; {where}", rep)
            continue
        if bool(res) != (expect > 0):
            viol_add(f"C11/composite/{form}/result", f"returned {res!r} with {expect} particles moved; {where}", rep)
            continue
        # every moved particle moved by exactly one operation result, common to its atoms
        if len(logs) != len(real):
            viol_add(f"C11/composite/{form}/operation-calls", f"{len(logs)} operation results for {len(real)} moved particles; {where}", rep)
            continue
        for d, r in zip(real, logs):
            t = np.flatnonzero(labels == int(d))
            if not np.allclose(after[t] - before[t], np.broadcast_to(r, (len(t), 3)), atol=TOL, rtol=0):
                viol_add(f"C11/composite/{form}/not-all-by-common-result", f"label {d}; {where}", rep)
                break


def _mk_viol():
    viol, seen = [], {}

    def add(sig, what, rep):
        seen[sig] = seen.get(sig, 0) + 1
        if seen[sig] <= 2:
            viol.append({"signature": sig, "what": what, "replay": rep})

    return viol, seen, add


def task(arg):
    counters = {"executions": 0, "transitions": 0, "nontrivial": 0, "label_arrays": 0}
    viol, seen, add = _mk_viol()
    for labels in arg["arrays"]:
        counters["label_arrays"] += 1
        for op in arg["ops"]:
            check_single(labels, op, add, counters)
        for nm in arg["comp_sizes"]:
            for form in ("mul", "add"):
                check_composite(labels, nm, form, add, counters)
    counters["violating"] = sum(seen.values())
    return {"counters": counters, "violations": viol, "samples": []}


def task_single_one(arg):
    viol, seen, add = _mk_viol()
    check_single(arg["labels"], arg["op"], add, {"executions": 0, "transitions": 0, "nontrivial": 0})
    return {"violations": viol}


def task_comp_one(arg):
    viol, seen, add = _mk_viol()
    check_composite(arg["labels"], arg["n_moves"], arg["form"], add, {"executions": 0, "transitions": 0, "nontrivial": 0})
    return {"violations": viol}


def run(tier, seed):
    rep = Report("model_checking")
    acc = Acc()
    arrays = [list(t) for n in range(0, 5) for t in itertools.product(ALPHA, repeat=n)]
    small = [a for a in arrays if len(a) <= 3]
    big = [a for a in arrays if len(a) == 4]
    args = []

    def chunks(lst, k):
        return [lst[i::k] for i in range(k)]

    for c in chunks(small, 16):
        args.append({"arrays": c, "ops": ["box", "ball", "trans", "rot"], "comp_sizes": [1, 2, 3]})
    for c in chunks(big, 64):
        args.append({"arrays": c, "ops": ["box", "ball", "trans", "rot"], "comp_sizes": [1, 2, 3]})
    if tier == "thorough":
        five = [list(t) for t in itertools.product(ALPHA, repeat=5)]
        for c in chunks(five, 128):
            args.append({"arrays": c, "ops": ["box", "ball", "trans", "rot"], "comp_sizes": [2, 3, 4]})
    for r in pmap(__name__, "task", args):
        acc.add(r)
    rep.violations = acc.violations
    rep.coverage = {
        "states": acc.n("label_arrays"),
        "transitions": acc.n("transitions"),
        "traces_validated_against_impl": acc.n("executions"),
        "executions": acc.n("executions"),
        "label_arrays": acc.n("label_arrays"),
        "nontrivial_executions": acc.n("nontrivial"),
        "violating": acc.n("violating"),
        "bound": "all label arrays of length 0..4 (thorough: 0..5) over {-3,-1,0,1,2,5}; check_move answers (max_attempts=2) on single moves; operations Box/Ball/Translation/Rotation; random and every pre-selected target; composites D*n and D+..+D for n=1..3 (length 5: 2..4); every particle-choice answer; one proposal value per draw",
        "exhaustive": True,
        "samples": [{"labels": [2, -3, 2, 0], "op": "rot", "target": "random", "checked": "moved set == atoms of chosen label, displacement == recorded operation result"}],
    }
    rep.assumptions = ["operation results are recorded by a subclass wrapper of the shipped operation (calculate is the documented protocol method)"]
    return rep


def replay(data):
    f = {"task_single_one": task_single_one, "task_comp_one": task_comp_one}[data["func"]]
    return {"signatures": sorted({v["signature"] for v in f(data["arg"])["violations"]})}
