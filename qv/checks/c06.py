"""C06 - same seed, same trajectory.

Configuration alphabet: 7 drivers x 2-4 move tables (explicit and default operations) x seeds
{0,1,2,42,2^32-1,2^32,2^63,2^64-1, f(VERIF_SEED), the same values as numpy integer scalars} x
states of the process {global generators untouched, reseeded differently before each of the two
runs, consumed between the runs, the operations of the first simulation re-tuned in place before
the second is built, criteria objects that already served another simulation at another
temperature}; plus fresh interpreters differing only in PYTHONHASHSEED.  Two simulations in one process, n = 5 steps, compared
bitwise after every step (positions, cell, numbers, move history) and in their log text; runs
with different seeds must differ; a monitor traps draws from numpy's / Python's global generators
made while a simulation is running.
"""

from __future__ import annotations

import io
import random
import warnings

import numpy as np

from qv.core import js
from qv.runner import Acc, Report, pmap
from qv.snapshot import atoms_snapshot, digest
from qv.systems import build

PID = "C06"
N = 5

CONFIGS = [
    ("Canonical", dict(ens="Canonical", atoms="A3", table=[["d", "D_ball"], ["b", "D_box"]], max_cycles=3)),
    ("Canonical", dict(ens="Canonical", atoms="M", table=[["r", "D_rot"], ["t", "D_transrot"], ["s", "D_sphere*2"]], max_cycles=3)),
    ("HamiltonianCanonical", dict(ens="HamiltonianCanonical", atoms="A3", table=[["h", "H"]], calc="harmonic", max_cycles=2)),
    ("HamiltonianCanonical", dict(ens="HamiltonianCanonical", atoms="A3", table=[["h", "H1"], ["d", "D_ball"]], calc="quartic", max_cycles=2)),
    ("Isobaric", dict(ens="Isobaric", atoms="A3", table=[["c", "C_iso"], ["d", "D_ball"]], max_cycles=3)),
    ("Isobaric", dict(ens="Isobaric", atoms="T3", table=[["c", "C_aniso"], ["s", "C_shape"]], max_cycles=2)),
    ("Isotension", dict(ens="Isotension", atoms="T3", table=[["c", "C_aniso"], ["d", "D_box"]], stress=[[0.001, 0.0005, 0], [0.0005, 0.002, 0], [0, 0, 0.001]], max_cycles=3)),
    ("Isotension", dict(ens="Isotension", atoms="A3", table=[["c", "C_default"], ["d", "D_default"]], max_cycles=2)),  # default (zero) external stress
    ("GrandCanonical", dict(ens="GrandCanonical", atoms="A3", table=[["e", "E_trans"], ["d", "D_ball"]], T=800.0, mu=-0.3, max_cycles=3)),
    ("GrandCanonical", dict(ens="GrandCanonical", atoms="M", table=[["e", "E_transrot"], ["x", "E_transrot*2"]], calc="zero", T=800.0, mu=-0.2, max_cycles=2)),
    ("Canonical", dict(ens="Canonical", atoms="A3", table=[["d", "D_default"]], max_cycles=2)),
    ("Isobaric", dict(ens="Isobaric", atoms="A3", table=[["c", "C_default"], ["d", "D_default"]], max_cycles=2)),
    ("GrandCanonical", dict(ens="GrandCanonical", atoms="A3", table=[["e", "E_default"], ["d", "D_default"]], T=800.0, mu=-0.3, max_cycles=2)),
    ("HamiltonianCanonical", dict(ens="HamiltonianCanonical", atoms="A3", table=[["h", "H_default"]], calc="harmonic", max_cycles=1)),
    ("HamiltonianCanonical", dict(ens="HamiltonianCanonical", atoms="A3", table=[["h", "H_forced"], ["d", "D_ball"]], calc="harmonic", max_cycles=2)),
    ("ForceBias", dict(ens="ForceBias")),
    ("AdaptiveForceBias", dict(ens="AdaptiveForceBias", scheme="forces")),
    ("AdaptiveForceBias", dict(ens="AdaptiveForceBias", scheme="energy")),
]


def make(cfg, seed):
    """Returns (sim, atoms, logbuffer)."""
    log = io.StringIO()
    if cfg["ens"] in ("ForceBias", "AdaptiveForceBias"):
        from ase.atoms import Atoms

        from qv import calcs
        from quansino.mc.fbmc import AdaptiveForceBias, ForceBias

        atoms = Atoms("Ar3", positions=[[1, 1.2, 0.9], [3.1, 2.2, 4.0], [4.4, 4.9, 2.1]], cell=[6] * 3, pbc=True)
        atoms.calc = calcs.PairSoft(centre=(3, 3, 3))
        with warnings.catch_warnings():
            warnings.simplefilter("ignore")
            if cfg["ens"] == "ForceBias":
                sim = ForceBias(atoms, 0.1, temperature=600.0, seed=seed, logfile=log)
            else:
                sim = AdaptiveForceBias(atoms, 0.05, 0.15, temperature=600.0, scheme=cfg["scheme"], seed=seed, logfile=log)
        return sim, atoms, log
    spec = dict(cfg)
    spec["seed"] = seed
    spec["log"] = False
    sysm = build(spec)
    sim = sysm.mc
    if sim.max_cycles >= 2 and sim.moves:  # a forced occupant: its slot is drawn too
        next(iter(sim.moves.values())).minimum_count = 1
    sim.default_logger = log
    sim.default_logger.add_mc_fields(sim)
    return sim, sysm.atoms, log


class Monitor:
    """Records draws from the process-global generators while armed."""

    NP = ["random", "rand", "randn", "uniform", "normal", "standard_normal", "choice", "randint", "random_sample", "permutation", "shuffle", "sample", "ranf"]
    PY = ["random", "uniform", "gauss", "normalvariate", "choice", "choices", "randint", "randrange", "shuffle", "sample"]

    def __init__(self):
        self.hits = []
        self.armed = False
        self.saved = []

    def __enter__(self):
        import traceback

        def wrap(modname, mod, name):
            orig = getattr(mod, name, None)
            if orig is None:
                return
            mon = self

            def w(*a, **k):
                if mon.armed:
                    st = traceback.extract_stack()
                    site = next((f"{fr.filename.split('/quansino/')[-1]}:{fr.name}" for fr in reversed(st) if "/quansino/" in fr.filename), None)
                    if site:
                        mon.hits.append(f"{modname}.{name}@{site}")
                return orig(*a, **k)

            self.saved.append((mod, name, orig))
            setattr(mod, name, w)

        for n in self.NP:
            wrap("numpy.random", np.random, n)
        for n in self.PY:
            wrap("random", random, n)
        orig_default = np.random.default_rng
        mon = self

        def default_rng(seed=None):
            if mon.armed and seed is None:
                import traceback as tb

                st = tb.extract_stack()
                site = next((f"{fr.filename.split('/quansino/')[-1]}:{fr.name}" for fr in reversed(st) if "/quansino/" in fr.filename), None)
                if site:
                    mon.hits.append(f"numpy.random.default_rng()@{site}")
            return orig_default(seed)

        self.saved.append((np.random, "default_rng", orig_default))
        np.random.default_rng = default_rng
        return self

    def __exit__(self, *a):
        for mod, name, orig in self.saved:
            setattr(mod, name, orig)


def decode_seed(seed):
    """Seeds travel as JSON: 'int64:42' stands for numpy.int64(42)."""
    if isinstance(seed, str):
        kind, v = seed.split(":")
        return getattr(np, kind)(int(v))
    return seed


def retune(sim):
    """The user (or an adaptive scheme) re-tunes, in place, the operations of a finished simulation."""
    from qv.systems import flatten_moves

    def ops(op):
        if hasattr(op, "operations"):
            for o in op.operations:
                yield from ops(o)
        else:
            yield op
            for nm in ("translation", "rotation"):
                if hasattr(op, nm):
                    yield getattr(op, nm)

    for st in getattr(sim, "moves", {}).values():
        for leaf in flatten_moves(st.move):
            if getattr(leaf, "operation", None) is None:
                continue
            for op in ops(leaf.operation):
                for nm, f in (("step_size", 2.5), ("max_value", 2.5), ("dt", 0.5)):
                    if hasattr(op, nm):
                        setattr(op, nm, getattr(op, nm) * f)
        if hasattr(st.criteria, "__dict__"):
            pass
    st = getattr(sim, "external_stress", None)
    if isinstance(st, np.ndarray):  # a stress ramp applied in place
        st[0, 0] -= 0.05
        st[1, 2] += 0.01
    for nm in ("delta", "min_delta", "max_delta"):
        if hasattr(sim, nm):
            try:
                setattr(sim, nm, getattr(sim, nm) * 1.7)
            except Exception:  # noqa: BLE001
                pass


def donor_criteria(cfg):
    """Criteria objects that have already served another simulation (same table, another
    temperature / pressure): the user shares one criteria instance between simulations."""
    if cfg["ens"] in ("ForceBias", "AdaptiveForceBias"):
        return None
    other = dict(cfg)
    other["T"] = 4.0 * cfg.get("T", 300.0)
    if "P" in other or cfg["ens"] in ("Isobaric", "Isotension"):
        other["P"] = 3.0 * cfg.get("P", 0.001)
    sim, _atoms, _log = make(other, 12345)
    for step in sim.irun(3):
        for _ in step:
            pass
    crit = {name: st.criteria for name, st in sim.moves.items()}
    sim.close()
    return crit


def trajectory(cfg, seed, monitor=None, after=None, criteria=None):
    sim, atoms, log = make(cfg, decode_seed(seed))
    if criteria:
        for name, st in sim.moves.items():
            st.criteria = criteria[name]
    frames = []
    if monitor:
        monitor.armed = True
    try:
        for step in sim.irun(N):
            if hasattr(step, "__next__"):
                for _ in step:
                    pass
            frames.append((digest(atoms_snapshot(atoms)), tuple((str(a), b) for a, b in getattr(sim, "move_history", []))))
    finally:
        if monitor:
            monitor.armed = False
    frames.append(digest(atoms_snapshot(atoms)))
    text = log.getvalue()
    used = getattr(sim, "_seed", None)
    sim.close()
    if after is not None:
        after(sim)
    return frames, text, used


def task(arg):
    ci, seeds = arg["config"], arg["seeds"]
    name, cfg = CONFIGS[ci]
    counters = {"evaluations": 0, "nontrivial": 0}
    viol, seen = [], {}

    def V(sig, what):
        seen[sig] = seen.get(sig, 0) + 1
        if seen[sig] <= 2:
            viol.append({"signature": sig, "what": what, "replay": {"check": PID, "func": "task", "arg": arg}})

    per_seed, plain = {}, {}
    with Monitor() as mon:
        for seed in seeds:
            for gstate in ("untouched", "reseeded-differently", "consumed-between", "earlier-simulation-retuned", "criteria-objects-served-another-simulation"):
                if gstate == "criteria-objects-served-another-simulation" and (seed not in seeds[:3] or cfg["ens"] in ("ForceBias", "AdaptiveForceBias")):
                    continue
                counters["evaluations"] += 1
                if gstate == "reseeded-differently":
                    np.random.seed(1)
                    random.seed(1)
                ival = int(decode_seed(seed))
                skind = "numpy-integer-seed" if isinstance(seed, str) else "seed-zero" if ival == 0 else "seed>=2^63" if ival >= 2**63 else "seed"
                where = f"{name} table {cfg.get('table', cfg.get('scheme', ''))} seed {seed} global generators {gstate}"
                try:
                    a = trajectory(cfg, seed, mon, after=retune if gstate == "earlier-simulation-retuned" else None)
                except Exception as e:  # noqa: BLE001
                    mon.armed = False
                    V(f"C06/{name}/{skind}/exception:{type(e).__name__}", f"building or running the simulation raised {type(e).__name__}: {e}; {where}"[:300])
                    continue
                if gstate == "reseeded-differently":
                    np.random.seed(2)
                    random.seed(2)
                elif gstate == "consumed-between":
                    np.random.random(7)
                    random.random()
                try:
                    b = trajectory(cfg, seed, mon, criteria=donor_criteria(cfg) if gstate == "criteria-objects-served-another-simulation" else None)
                except Exception as e:  # noqa: BLE001
                    mon.armed = False
                    V(f"C06/{name}/{skind}/exception:{type(e).__name__}", f"building or running the second simulation raised {type(e).__name__}: {e}; {where}"[:300])
                    continue
                if gstate != "untouched":
                    counters["nontrivial"] += 1
                if a[2] is not None and int(a[2]) != ival:
                    V(f"C06/{name}/{skind}/seed-replaced", f"simulation built with seed {seed} uses seed {a[2]}; {where}")
                if a[0] != b[0]:
                    k = next(i for i, (x, y) in enumerate(zip(a[0], b[0])) if x != y)
                    V(f"C06/{name}/{skind}/{gstate}/trajectories-differ", f"two runs differ from step {k + 1}; {where}")
                elif a[1] != b[1]:
                    V(f"C06/{name}/{skind}/{gstate}/logs-differ", f"same trajectory, different log text; {where}")
                per_seed[ival] = a[0]
                if isinstance(seed, str) and ival in plain and plain[ival] != a[0]:
                    V(f"C06/{name}/numpy-integer-seed/differs-from-python-int-seed", f"seed {seed} and the Python integer {ival} give different trajectories; {where}")
                if not isinstance(seed, str):
                    plain[ival] = a[0]
    # two replicas rebuilt from ONE in-memory dictionary (same seed state, atoms and configuration)
    if cfg["ens"] not in ("ForceBias", "AdaptiveForceBias"):
        try:
            counters["evaluations"] += 1
            counters["nontrivial"] += 1
            spec0 = dict(cfg)
            spec0["seed"] = 77
            spec0["log"] = False
            sysm = build(spec0)
            for step in sysm.mc.irun(2):
                for _ in step:
                    pass
            data = sysm.mc.to_dict()
            cls = type(sysm.mc)
            reps = []
            for _k in range(2):
                sim = cls.from_dict(data)
                sim.atoms.calc = sysm.calc_factory()
                frames = []
                for step in sim.irun(3):
                    for _ in step:
                        pass
                    frames.append((digest(atoms_snapshot(sim.atoms)), tuple((str(a), b) for a, b in sim.move_history)))
                reps.append(frames)
                sim.close()
                if _k == 0:
                    # the simulation the dictionary was taken from moves on before the second replica is built:
                    # the dictionary is a checkpoint and must not follow it
                    for step in sysm.mc.irun(3):
                        for _ in step:
                            pass
            sysm.close()
            if reps[0] != reps[1]:
                k = next(i for i, (x, y) in enumerate(zip(reps[0], reps[1])) if x != y)
                V(f"C06/{name}/two-replicas-from-one-dictionary/trajectories-differ", f"two simulations rebuilt from the same to_dict() dictionary (the second one after the original simulation had run 3 more steps) differ from step {k + 1}; {name} table {cfg.get('table', '')}")
        except Exception as e:  # noqa: BLE001
            V(f"C06/{name}/two-replicas-from-one-dictionary/exception:{type(e).__name__}", f"{e}"[:250])
    for h in sorted(set(mon.hits)):
        V(f"C06/{name}/global-generator-draw/{h}", f"a draw from a process-global generator was made while the simulation ran: {h}")
    ss = sorted(per_seed)
    for i in range(len(ss)):
        for j in range(i + 1, len(ss)):
            counters["evaluations"] += 1
            if per_seed[ss[i]] == per_seed[ss[j]]:
                V(f"C06/{name}/different-seeds-same-trajectory", f"seeds {ss[i]} and {ss[j]} give identical trajectories; {name} {cfg.get('table', '')}")
    return {"counters": counters, "violations": viol, "samples": [{"driver": name, "table": cfg.get("table", cfg.get("scheme")), "seeds": seeds, "steps": N}]}


def worker_main():
    """Fresh interpreter (its own PYTHONHASHSEED): print a digest of one trajectory."""
    import json
    import sys

    ci, seed = int(sys.argv[1]), json.loads(sys.argv[2])
    frames, text, _used = trajectory(CONFIGS[ci][1], seed)
    print(json.dumps({"digest": digest((frames, text))}))


def task_hashseed(arg):
    """The same configuration and seed in fresh interpreters that differ only in Python's string
    hash seed (set iteration order, dict-of-set order): trajectories and logs must be identical."""
    import json
    import os
    import subprocess
    import sys

    ci, seed = arg["config"], arg["seed"]
    name, cfg = CONFIGS[ci]
    viol, out = [], {}
    for h in arg["hashseeds"]:
        env = dict(os.environ)
        env["PYTHONHASHSEED"] = str(h)
        env["PYTHONWARNINGS"] = "ignore"
        p = subprocess.run([sys.executable, "-c", "from qv.checks.c06 import worker_main; worker_main()", str(ci), json.dumps(seed)], capture_output=True, text=True, env=env, timeout=600)
        try:
            out[h] = json.loads(p.stdout.strip().splitlines()[-1])["digest"]
        except Exception:  # noqa: BLE001
            viol.append({"signature": f"C06/{name}/fresh-interpreter/exception", "what": f"PYTHONHASHSEED={h}: exit {p.returncode}: {p.stderr[-300:]}", "replay": {"check": PID, "func": "task_hashseed", "arg": arg}})
            return {"counters": {"evaluations": 1, "interpreters": len(out) + 1}, "violations": viol}
    if len(set(out.values())) > 1:
        viol.append({"signature": f"C06/{name}/trajectory-depends-on-python-hash-seed", "what": f"{name} table {cfg.get('table', cfg.get('scheme', ''))} seed {seed}: fresh interpreters with PYTHONHASHSEED in {arg['hashseeds']} give {len(set(out.values()))} different trajectories/logs", "replay": {"check": PID, "func": "task_hashseed", "arg": arg}})
    return {"counters": {"evaluations": 1, "nontrivial": 1, "interpreters": len(out)}, "violations": viol}


def run(tier, seed):
    rep = Report("exploration")
    acc = Acc()
    seeds = [0, 1, 2, 42, 2**32 - 1, 2**32, 2**63, 2**64 - 1, 1000003 + (seed % 100000), "int64:42", "uint32:2", "int32:0", "uint64:18446744073709551615"]
    if tier == "thorough":
        seeds += [3, 7, 2**31, 2**53 + 1, 2**64 - 2, 123456789012345678, "int64:3", "uint8:7", "intp:2147483648"]
    args = [{"config": i, "seeds": seeds} for i in range(len(CONFIGS))]
    for r in pmap(__name__, "task", args):
        acc.add(r)
    hs = [1, 2, 3] if tier == "quick" else [1, 2, 3, 4, 5, 6, 7]
    hargs = [{"config": i, "seed": 42, "hashseeds": hs} for i, (_n, c) in enumerate(CONFIGS) if len(c.get("table", [])) >= 2 or tier == "thorough"]
    for r in pmap(__name__, "task_hashseed", hargs):
        acc.add(r)
    rep.violations = acc.violations
    rep.coverage = {
        "evaluations": acc.n("evaluations"),
        "distinct_nontrivial": acc.n("nontrivial"),
        "rule": "one evaluation = one pair of runs (same configuration and seed, 5 steps, compared after every step) under one state of the global generators, or one pair of different seeds compared for distinctness; non-trivial = the global generators were perturbed between/before the two runs",
        "fresh_interpreters_with_other_hash_seeds": acc.n("interpreters"),
        "drivers": sorted({c[0] for c in CONFIGS}),
        "configurations": len(CONFIGS),
        "seeds": seeds,
        "exhaustive": True,
        "samples": acc.samples[:3],
    }
    rep.assumptions = ["draws made through names bound at import time (from numpy.random import ...) are not seen by the monitor; they are covered by the run-twice comparison", "the quality of PCG64 is trusted"]
    return rep


def replay(data):
    res = (task_hashseed if data.get("func") == "task_hashseed" else task)(data["arg"])
    return {"signatures": sorted({v["signature"] for v in res["violations"]})}
