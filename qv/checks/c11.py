"""C11 - a displacement move moves only the chosen particle.

Every label array of length n <= 4 over {-1,0,1,2,5} x operations x {random, pre-selected}
target, with every answer of the particle choice enumerated, on the real ``DisplacementMove``
and on composites ``D*n`` / ``D+...+D`` (n = 1..3).  For arrays of length <= 3 also every
two-call history on ONE move object (second call judged like a first one: state left behind by a
vetoed or successful call must not leak), and composite plans {call, call}, {call, user retires
every particle, call}, {user pre-selects a member's target, call}.
"""

from __future__ import annotations

import itertools

import numpy as np
from ase.atoms import Atoms

from qv.core import Chooser, Stats, explore, js
from qv.rngx import ChoiceRNG, Policy
from qv.runner import Acc, Report, pmap

PID = "C11"
ALPHA = (-3, -1, 0, 1, 2, 5)
POLICY = dict(uniform_q=(0.3, 0.8), angular_q=None, product_limit=0, branch_calls=0)
TOL = 1e-12


def make_atoms(n):
    pos = np.array([[0.9 + 1.1 * i, 1.3 + 0.7 * ((2 * i) % 3), 0.8 + 0.45 * i * i] for i in range(n)])
    syms = ["Cu", "H", "O", "Ar", "N"][:n]
    return Atoms(syms, positions=pos, cell=[[7, 0, 0], [0.8, 6.5, 0], [0.3, 0.6, 7.2]], pbc=True)


def make_op(name, log):
    from quansino.operations.displacement import Ball, Box, Rotation, Translation

    op = {"box": lambda: Box(0.4), "ball": lambda: Ball(0.4), "trans": lambda: Translation(), "rot": lambda: Rotation()}[name]()
    inner = op.calculate

    class Rec(type(op)):
        __slots__ = ()

        def calculate(self, context):
            r = inner(context)
            log.append(np.array(r, dtype=float, copy=True))
            return r

    op.__class__ = Rec
    return op


def judge_single(labels, uniq, opname, mode, pre, pts, res, err, before, after, log, labs_after, viol_add, counters, rep, where, kind="single"):
    """Judge ONE call of a DisplacementMove (``pts``: the explorer points of that call)."""
    n = len(labels)
    if err:
        viol_add(f"C11/{kind}/{opname}/{mode}/exception", f"{err}; {where}", rep)
        return
    moved = np.flatnonzero(np.abs(after - before).max(axis=1) > 0) if n else np.array([], int)
    if not uniq:
        counters["nontrivial"] += 1
        if res or len(moved):
            viol_add(f"C11/{kind}/{opname}/no-eligible-particle", f"returned {res!r}, moved atoms {moved.tolist()}; {where}", rep)
        return
    # which label was chosen: read off the outcome (the statement fixes neither how many draws the
    # selection takes nor its law - the law is C01's subject)
    checks = [p.idx for p in pts if p.kind == "user"]
    vetoed_all = len(checks) == 2 and all(c == 1 for c in checks)
    if pre is None:
        if vetoed_all:
            if res or len(moved):
                viol_add(f"C11/{kind}/{opname}/{mode}/all-attempts-vetoed-but-changed", f"returned {res!r}, moved atoms {moved.tolist()}; {where}", rep)
            return
        if not res:
            viol_add(f"C11/{kind}/{opname}/{mode}/reported-failure", f"returned {res!r} although labels {uniq} are eligible; {where}", rep)
            return
        if any(labels[i] < 0 for i in moved):
            viol_add(f"C11/{kind}/{opname}/{mode}/negative-label-atom-moved", f"atoms {moved.tolist()} moved, labels {labels.tolist()}; {where}", rep)
            return
        moved_labels = sorted({int(labels[i]) for i in moved})
        if len(moved_labels) != 1:
            # no atom moved (a zero proposal cannot be told apart) or atoms of several particles moved
            if len(moved_labels) > 1:
                viol_add(f"C11/{kind}/{opname}/{mode}/other-particle-moved", f"atoms {moved.tolist()} of particles {moved_labels} moved in one call; {where}", rep)
            return
        chosen = moved_labels[0]
    else:
        chosen = pre
    target = np.flatnonzero(labels == chosen)
    if len(target) > 1 or (labels < 0).any():
        counters["nontrivial"] += 1
    if vetoed_all:
        if res or len(moved):
            viol_add(f"C11/{kind}/{opname}/{mode}/all-attempts-vetoed-but-changed", f"returned {res!r}, moved atoms {moved.tolist()}; {where}", rep)
        return
    if not res:
        viol_add(f"C11/{kind}/{opname}/{mode}/reported-failure", f"returned {res!r} although label {chosen} is eligible; {where}", rep)
        return
    extra = sorted(set(moved.tolist()) - set(target.tolist()))
    if extra:
        k2 = "negative-label-atom-moved" if any(labels[i] < 0 for i in extra) else "other-particle-moved"
        viol_add(f"C11/{kind}/{opname}/{mode}/{k2}", f"atoms {extra} moved, selected label {chosen} owns {target.tolist()}; {where}", rep)
        return
    if len(log) != len(checks):
        viol_add(f"C11/{kind}/{opname}/{mode}/operation-calls", f"{len(log)} operation results for {len(checks)} attempts; {where}", rep)
        return
    last = log[-1]  # the accepted attempt: the displacement must be that single result
    want = np.broadcast_to(last, (len(target), 3)) if last.shape[0] in (1, len(target)) else None
    got = after[target] - before[target]
    if want is None or not np.allclose(got, want, atol=TOL, rtol=0):
        viol_add(f"C11/{kind}/{opname}/{mode}/not-all-by-common-result", f"displacements {js(got)} vs operation result {js(last)}; selected atoms {target.tolist()}; {where}", rep)
        return
    if not np.array_equal(labs_after, labels):
        viol_add(f"C11/{kind}/{opname}/{mode}/labels-changed", f"labels became {labs_after.tolist()}; {where}", rep)


def check_single(labels, opname, viol_add, counters, second=False, only=None, constraint=None):
    """One call (or, with ``second``, two consecutive calls of the SAME move object on the same
    context: the second call is judged exactly like a first one)."""
    from quansino.mc.contexts import DisplacementContext
    from quansino.moves.displacement import DisplacementMove

    labels = np.array(labels, dtype=int)
    n = len(labels)
    uniq = sorted({int(l) for l in labels if l >= 0})
    plans = [(pre,) for pre in [None] + uniq]
    if second:
        plans = [(a, b) for a in [None] + uniq[:1] for b in [None] + uniq]
    for plan in plans:

        def run(ch):
            atoms = make_atoms(n)
            if constraint == "fixcom":
                from ase.constraints import FixCom

                atoms.set_constraint(FixCom())
            log = []
            ctx = DisplacementContext(atoms, ChoiceRNG(ch, Policy(**POLICY)))
            mv = DisplacementMove(labels.copy(), make_op(opname, log))
            mv.max_attempts = 2
            mv.check_move = lambda *_a, **_k: ch.pick("user", 2, None, ["check-ok", "check-veto"]) == 0
            calls = []
            for pre in plan:
                ch.mark()
                if pre is not None:
                    mv.to_displace_labels = pre
                before = atoms.positions.copy()
                n0 = len(log)
                try:
                    res = mv(ctx)
                    err = None
                except Exception as e:  # noqa: BLE001
                    res, err = None, f"{type(e).__name__}: {e}"
                calls.append((ch.seg, res, err, before, atoms.positions.copy(), log[n0:], np.asarray(mv.labels).copy()))
                if err:
                    break
            return calls

        st = Stats()
        for ch, calls in explore(run, stats=st):
            counters["executions"] += 1
            counters["transitions"] += len(ch.trace)
            for k, (seg, res, err, before, after, log, labs_after) in enumerate(calls):
                pre = plan[k]
                mode = "random" if pre is None else "preselected"
                rep = {"check": PID, "func": "task_single_one", "arg": {"labels": labels.tolist(), "op": opname, "second": second, "only": ch.choices}}
                where = f"labels {labels.tolist()} op {opname} target {mode}" + (f" (call {k + 1} of {len(plan)} on one move object, targets {list(plan)})" if second else "")
                pts = [p for p in ch.trace if p.seg == seg]
                if constraint:
                    # a collective constraint legitimately shifts every atom: only two clauses stay decidable
                    rep["arg"]["constraint"] = constraint
                    checks = [p.idx for p in pts if p.kind == "user"]
                    ch_d = after - before
                    if err:
                        viol_add(f"C11/single+{constraint}/{opname}/exception", f"{err}; {where}", rep)
                    elif uniq and len(checks) == 2 and all(c == 1 for c in checks):
                        if res or np.abs(ch_d).max() > 0:
                            viol_add(f"C11/single+{constraint}/{opname}/all-attempts-vetoed-but-changed", f"returned {res!r}, positions changed by up to {np.abs(ch_d).max():.3g}; {where}", rep)
                    elif uniq and res and n:
                        pts_c = [p for p in pts if p.kind == "choice"]
                        chosen = pre if pre is not None else (int(pts_c[0].label) if pts_c else None)
                        others = np.flatnonzero(labels != chosen) if chosen is not None else np.array([], int)
                        if len(others) > 1 and np.abs(ch_d[others] - ch_d[others][0]).max() > 1e-12:
                            viol_add(f"C11/single+{constraint}/{opname}/non-selected-atoms-not-shifted-rigidly", f"non-selected atoms moved by different vectors {js(ch_d[others])} (a centre-of-mass correction is one common shift); {where}", rep)
                    continue
                judge_single(labels, uniq, opname, mode, pre, pts, res, err, before, after, log, labs_after, viol_add, counters, rep, where, kind="single" if k == 0 else "single-second-call")


def judge_composite(labels, n_moves, form, res, err, before, after, logs, displaced, nmoved, viol_add, counters, rep, where, kind="composite"):
    n = len(labels)
    uniq = sorted({int(l) for l in labels if l >= 0})
    if err:
        viol_add(f"C11/{kind}/{form}/exception", f"{err}; {where}", rep)
        return
    if n_moves > 1 and len(uniq) > 1:
        counters["nontrivial"] += 1
    moved_atoms = np.flatnonzero(np.abs(after - before).max(axis=1) > 0) if n else np.array([], int)
    moved_labels = sorted({int(labels[i]) for i in moved_atoms})
    real = [d for d in displaced if d is not None]
    if len(set(int(d) for d in real)) != len(real):
        viol_add(f"C11/{kind}/{form}/particle-displaced-twice", f"displaced labels {js(displaced)}; {where}", rep)
        return
    expect = min(n_moves, len(uniq))
    if len(real) != expect:
        viol_add(f"C11/{kind}/{form}/moved-count", f"moved {len(real)} particles, expected min({n_moves},{len(uniq)}); {where}", rep)
        return
    if nmoved != len(moved_labels) or sorted(int(d) for d in real) != moved_labels:
        viol_add(f"C11/{kind}/{form}/report-differs-from-moved", f"reports {nmoved} moved / labels {js(real)}, positions show labels {moved_labels}; {where}", rep)
        return
    if any(labels[i] < 0 for i in moved_atoms):
        viol_add(f"C11/{kind}/{form}/negative-label-atom-moved", f"atoms {moved_atoms.tolist()}; {where}", rep)
        return
    if bool(res) != (expect > 0):
        viol_add(f"C11/{kind}/{form}/result", f"returned {res!r} with {expect} particles moved; {where}", rep)
        return
    # every moved particle moved by exactly one operation result, common to its atoms
    if len(logs) != len(real):
        viol_add(f"C11/{kind}/{form}/operation-calls", f"{len(logs)} operation results for {len(real)} moved particles; {where}", rep)
        return
    for d, r in zip(real, logs):
        t = np.flatnonzero(labels == int(d))
        if not np.allclose(after[t] - before[t], np.broadcast_to(r, (len(t), 3)), atol=TOL, rtol=0):
            viol_add(f"C11/{kind}/{form}/not-all-by-common-result", f"label {d}; {where}", rep)
            break


def composite_plans(labels, second):
    """A plan is a list of user actions, each followed by one call of the composite."""
    uniq = sorted({int(l) for l in labels if l >= 0})
    if not second:
        return [[None]]
    plans = [[None, "all-ineligible"], [None, None]]
    plans += [[f"preselect:{l}"] for l in uniq] + [[None, f"preselect:{uniq[0]}"]] if uniq else []
    return plans


def check_composite(labels, n_moves, form, viol_add, counters, second=False, only_plan=None):
    from quansino.mc.contexts import DisplacementContext
    from quansino.moves.displacement import DisplacementMove

    labels = np.array(labels, dtype=int)
    n = len(labels)
    plans = composite_plans(labels, second) if only_plan is None else [only_plan]
    for plan in plans:

        def run(ch):
            atoms = make_atoms(n)
            logs = []
            ctx = DisplacementContext(atoms, ChoiceRNG(ch, Policy(**POLICY)))
            if form == "mul":
                comp = DisplacementMove(labels.copy(), make_op("box", logs))
                comp = comp * n_moves if n_moves > 1 else comp * 1
            elif form == "add-right":  # a + (b + c): an elementary move in front of a composite
                ms = [DisplacementMove(labels.copy(), make_op("box" if i % 2 == 0 else "ball", logs)) for i in range(n_moves)]
                comp = ms[-1] * 1 if n_moves == 1 else ms[-1]
                for m in reversed(ms[:-1]):
                    comp = m + comp
            elif form == "add-mul":  # a + (b * (n-1))
                a = DisplacementMove(labels.copy(), make_op("ball", logs))
                b = DisplacementMove(labels.copy(), make_op("box", logs))
                comp = a + (b * (n_moves - 1)) if n_moves > 1 else a * 1
            else:
                ms = [DisplacementMove(labels.copy(), make_op("box" if i % 2 == 0 else "ball", logs)) for i in range(n_moves)]
                comp = ms[0] * 1 if n_moves == 1 else ms[0]
                for m in ms[1:]:
                    comp = comp + m
            cur = labels.copy()
            calls = []
            for action in plan:
                if action == "all-ineligible":  # the user retires every particle (documented setter)
                    cur = np.full(n, -1)
                    for m in {id(m): m for m in comp.moves}.values():
                        m.set_labels(cur.copy())
                elif action is not None and action.startswith("preselect:"):
                    comp.moves[-1].to_displace_labels = int(action.split(":")[1])
                before = atoms.positions.copy()
                n0 = len(logs)
                try:
                    res = comp(ctx)
                    err = None
                except Exception as e:  # noqa: BLE001
                    res, err = None, f"{type(e).__name__}: {e}"
                calls.append((cur.copy(), res, err, before, atoms.positions.copy(), logs[n0:], list(getattr(comp, "displaced_labels", [])), getattr(comp, "number_of_moved_particles", None)))
                if err:
                    break
            return calls

        for ch, calls in explore(run):
            counters["executions"] += 1
            counters["transitions"] += len(ch.trace)
            for k, (cur, res, err, before, after, logs, displaced, nmoved) in enumerate(calls):
                rep = {"check": PID, "func": "task_comp_one", "arg": {"labels": labels.tolist(), "n_moves": n_moves, "form": form, "plan": plan, "only": ch.choices}}
                where = f"labels {cur.tolist()} composite {form} of {n_moves}" + (f" (call {k + 1} of plan {plan})" if second or only_plan else "")
                kind = "composite" if plan == [None] else "composite-sequence/" + "+".join((a or "call").split(":")[0] for a in plan[: k + 1])
                judge_composite(cur, n_moves, form, res, err, before, after, logs, displaced, nmoved, viol_add, counters, rep, where, kind=kind)


def _mk_viol():
    viol, seen = [], {}

    def add(sig, what, rep):
        seen[sig] = seen.get(sig, 0) + 1
        if seen[sig] <= 2:
            viol.append({"signature": sig, "what": what, "replay": rep})

    return viol, seen, add


def task(arg):
    counters = {"executions": 0, "transitions": 0, "nontrivial": 0, "label_arrays": 0}
    viol, seen, add = _mk_viol()
    for labels in arg["arrays"]:
        counters["label_arrays"] += 1
        for op in arg["ops"]:
            check_single(labels, op, add, counters)
        for nm in arg["comp_sizes"]:
            for form in ("mul", "add") + (("add-right", "add-mul") if nm > 1 and len(labels) <= 3 else ()):
                check_composite(labels, nm, form, add, counters)
        if arg.get("sequences"):
            for op in ("box", "trans"):
                check_single(labels, op, add, counters, second=True)
            check_single(labels, "box", add, counters, constraint="fixcom")
            for nm in (2, 3):
                for form in ("mul", "add"):
                    check_composite(labels, nm, form, add, counters, second=True)
    counters["violating"] = sum(seen.values())
    return {"counters": counters, "violations": viol, "samples": []}


def task_single_one(arg):
    viol, seen, add = _mk_viol()
    check_single(arg["labels"], arg["op"], add, {"executions": 0, "transitions": 0, "nontrivial": 0}, second=arg.get("second", False), constraint=arg.get("constraint"))
    return {"violations": viol}


def task_comp_one(arg):
    viol, seen, add = _mk_viol()
    check_composite(arg["labels"], arg["n_moves"], arg["form"], add, {"executions": 0, "transitions": 0, "nontrivial": 0}, only_plan=arg.get("plan"))
    return {"violations": viol}


def run(tier, seed):
    rep = Report("model_checking")
    acc = Acc()
    arrays = [list(t) for n in range(0, 5) for t in itertools.product(ALPHA, repeat=n)]
    # labels are identifiers, not small numbers: a few arrays with labels around 10^6 and 2^40
    arrays += [[1000000, 1000001], [1000001, 1000000, 1000001], [1000000, -1, 1000001, 1000002], [2**40, 2**40 + 1, 2**40], [999999, 1000000, 1000001]]
    small = [a for a in arrays if len(a) <= 3]
    big = [a for a in arrays if len(a) == 4]
    args = []

    def chunks(lst, k):
        return [lst[i::k] for i in range(k)]

    for c in chunks(small, 16):
        args.append({"arrays": c, "ops": ["box", "ball", "trans", "rot"], "comp_sizes": [1, 2, 3], "sequences": True})
    for c in chunks(big, 64):
        args.append({"arrays": c, "ops": ["box", "ball", "trans", "rot"], "comp_sizes": [1, 2, 3]})
    if tier == "thorough":
        five = [list(t) for t in itertools.product(ALPHA, repeat=5)]
        for c in chunks(five, 128):
            args.append({"arrays": c, "ops": ["box", "ball", "trans", "rot"], "comp_sizes": [2, 3, 4]})
    for r in pmap(__name__, "task", args):
        acc.add(r)
    rep.violations = acc.violations
    rep.coverage = {
        "states": acc.n("label_arrays"),
        "transitions": acc.n("transitions"),
        "traces_validated_against_impl": acc.n("executions"),
        "executions": acc.n("executions"),
        "label_arrays": acc.n("label_arrays"),
        "nontrivial_executions": acc.n("nontrivial"),
        "violating": acc.n("violating"),
        "bound": "all label arrays of length 0..4 (thorough: 0..5) over {-3,-1,0,1,2,5}; check_move answers (max_attempts=2) on single moves; operations Box/Ball/Translation/Rotation; random and every pre-selected target; composites D*n, (D+D)+D, D+(D+D) and D+(D*(n-1)) for n=1..3 (length 5: 2..4); every particle-choice answer; one proposal value per draw; arrays of length <= 3 additionally: all two-call histories on one move object (ops Box/Translation, random and pre-selected targets, all check answers) and composite plans call-call / call-retire-all-call / preselect-call",
        "exhaustive": True,
        "samples": [{"labels": [2, -3, 2, 0], "op": "rot", "target": "random", "checked": "moved set == atoms of chosen label, displacement == recorded operation result"}],
    }
    rep.assumptions = ["operation results are recorded by a subclass wrapper of the shipped operation (calculate is the documented protocol method)"]
    return rep


def replay(data):
    f = {"task_single_one": task_single_one, "task_comp_one": task_comp_one}[data["func"]]
    return {"signatures": sorted({v["signature"] for v in f(data["arg"])["violations"]})}
