"""C12 - constraints on the atoms are respected.

Exhaustive histories (depth 2 quick / 3 thorough) of real simulations with FixAtoms on every
subset of <= 2 atoms or FixCom, for displacement moves (Ball, Translation, Rotation of a
molecule, D*2, D+D), Hamiltonian moves (two time steps / step counts) and force-bias steps under
prescribed generator answers: after every trial fixed atoms are bitwise where they started and a
fixed centre of mass has not drifted.  FixRot.adjust_momenta: every non-collinear placement of
3 (4) atoms on a 3x3x2 lattice x masses x momentum patterns.
"""

from __future__ import annotations

import itertools
import warnings

import numpy as np
from ase.atoms import Atoms
from ase.constraints import FixAtoms, FixCom

from qv import calcs
from qv.core import Chooser, Stats, explore, js
from qv.drive import execute
from qv.rngx import Policy, QuantileRNG
from qv.runner import Acc, Report, pmap

PID = "C12"
POLICY = dict(uniform_q=(0.3, 0.8), angular_q=(0.1, 0.6), normal_z=(-1.0, 0.6), product_limit=0, branch_calls=1)


def specs(tier):
    out = []
    d = 2 if tier == "quick" else 3
    subsets3 = ["fix:0", "fix:1", "fix:2", "fix:0,1", "fix:0,2", "fix:1,2", "fixcom"]
    for c in subsets3:
        for key in ("D_ball", "D_trans", "D_ball*2", "D_ball+D_box"):
            out.append(dict(ens="Canonical", atoms="A3", table=[["d", key]], decos=[c], depth=d, check=(key == "D_ball")))
        for key in ("H", "H1"):
            out.append(dict(ens="HamiltonianCanonical", atoms="A3", table=[["h", key]], decos=[c, "momenta"], calc="quartic", depth=d, check=(key == "H1")))
        out.append(dict(ens="Isobaric", atoms="A3", table=[["d", "D_ball"], ["c", "C_iso"]], decos=[c], depth=d, scale_atoms_note="cell moves are not part of C12: only the displacement trials are judged"))
    for c in ("fix:0", "fix:1", "fix:3", "fix:1,3", "fix:0,2", "fixcom"):
        for key in ("D_rot", "D_transrot"):
            out.append(dict(ens="Canonical", atoms="M", table=[["d", key]], decos=[c], depth=d))
    for c in ("fix:0", "fix:1", "fix:0,1"):
        out.append(dict(ens="GrandCanonical", atoms="A3", table=[["d", "D_ball"], ["e", "E_trans"]], decos=[c], depth=d, judge_only="d"))
    # three trials: an accepted trial, a rejected deletion in front of the fixed atom, a displacement
    out.append(dict(ens="GrandCanonical", atoms="A3", table=[["d", "D_ball"], ["e", "E_trans"]], decos=["fix:2"], depth=3, judge_only="d"))
    return out


def _probe(sysm):
    a = sysm.atoms
    return {"pos": a.positions.copy(), "com": a.get_center_of_mass() if len(a) else np.zeros(3), "n": len(a), "uid": a.arrays["uid"].copy()}


def task(spec):
    depth = spec["depth"]
    policy = Policy(**POLICY)
    counters = {"executions": 0, "trials": 0, "nontrivial": 0}
    viol, seen = [], {}
    states = set()
    st = Stats()
    fixed = sorted({int(x) for d in spec["decos"] if d.startswith("fix:") for x in d[4:].split(",")})
    fixcom = "fixcom" in spec["decos"]
    ckind = "FixCom" if fixcom else f"FixAtoms{len(fixed)}"

    def setup(sysm):
        sysm.atoms.set_array("uid", np.arange(1, len(sysm.atoms) + 1))

    def run(ch):
        sysm, trials = execute(spec, ch, depth, policy, probe=_probe, setup=setup)
        sysm.close()
        return trials

    only = spec.get("only")
    gen = explore(run, stats=st) if only is None else [(Chooser(only), None)]
    if only is not None:
        c = Chooser(only)
        gen = [(c, run(c))]
    for ch, trials in gen:
        counters["executions"] += 1
        if not trials or trials[0].extra_pre is None:
            continue
        x0 = trials[0].extra_pre["pos"]
        com0 = trials[0].extra_pre["com"]
        for t in trials:
            counters["trials"] += 1
            if t.error is not None or t.extra_post is None:
                break
            mk = next((e[1] for e in spec["table"] if e[0] == t.name), t.name)
            if spec.get("judge_only") and t.name != spec["judge_only"]:
                if t.extra_post["n"] != len(x0):
                    break  # the atom count changed: indices no longer comparable in this execution
                continue
            if mk.startswith("C_"):
                break  # cell moves scale all atoms by design; stop judging this execution
            post = t.extra_post
            ev = {True: "accepted", False: "rejected", None: "failed"}.get(t.verdict, str(t.verdict))
            counters["nontrivial"] += 1
            states.add((ev, mk))
            rep = {"check": PID, "func": "task", "arg": {**{k: v for k, v in spec.items() if k != "only"}, "only": ch.choices}}
            where = f"{spec['ens']} {mk} with {spec['decos']} history {js([[x.name, x.verdict] for x in trials])}"
            import re

            kind = re.sub(r"_[a-z]+", "", mk)
            if fixed:
                uid = post["uid"]
                for i in fixed:
                    j = np.flatnonzero(uid == i + 1)
                    if len(j) != 1 or not np.array_equal(post["pos"][j[0]], x0[i]):
                        sig = f"C12/{spec['ens']}/{kind}/{ckind}/{ev}/fixed-atom-moved"
                        seen[sig] = seen.get(sig, 0) + 1
                        if seen[sig] <= 2:
                            viol.append({"signature": sig, "what": f"fixed atom {i} is at {js(post['pos'][j[0]]) if len(j) else 'gone'}, started at {js(x0[i])}; {where}", "replay": rep})
                        break
            if fixcom and np.abs(post["com"] - com0).max() > 1e-10:
                sig = f"C12/{spec['ens']}/{kind}/{ckind}/{ev}/centre-of-mass-drifted"
                seen[sig] = seen.get(sig, 0) + 1
                if seen[sig] <= 2:
                    viol.append({"signature": sig, "what": f"centre of mass moved by {np.abs(post['com'] - com0).max():.3g}; {where}", "replay": rep})
    counters["transitions"] = st.points
    return {"counters": counters, "violations": viol, "sets": {"states": [f"{a}:{b}" for a, b in states]}, "samples": []}


def task_forcebias(arg):
    from quansino.mc.fbmc import ForceBias

    counters = {"executions": 0, "trials": 0, "nontrivial": 0}
    viol, seen = [], {}
    cons, delta, T = arg["constraint"], arg["delta"], arg["T"]
    firsts = [([0.5] * 9, [0.3] * 9), ([0.95, 0.05] * 4 + [0.95], [0.999] * 9), ([0.999, 0.001, 0.6, 0.4, 0.75, 0.25, 0.9, 0.1, 0.5], [0.5, 0.5, 0.9, 0.9, 0.1, 0.1, 0.7, 0.3, 0.99])]
    for seq in itertools.product(range(len(firsts)), repeat=arg["steps"]):
        atoms = Atoms("CuArH", positions=[[1, 1.2, 0.9], [3.1, 2.2, 4.0], [4.4, 4.9, 2.1]], cell=[8] * 3, pbc=True)
        atoms.calc = calcs.PairSoft(eps=0.5, s=2.0, k=0.3, centre=(3, 3, 3))
        fixed = []
        if cons == "fixcom":
            atoms.set_constraint(FixCom())
        else:
            fixed = [int(x) for x in cons[4:].split(",")]
            atoms.set_constraint(FixAtoms(indices=fixed))
        with warnings.catch_warnings():
            warnings.simplefilter("ignore")
            sim = ForceBias(atoms, delta, temperature=T, seed=1)
        if arg.get("custom_masses"):  # displacement-scaling masses set through the public method
            sim.update_masses(np.array([[5.0, 5.0, 5.0], [80.0, 80.0, 80.0], [20.0, 20.0, 20.0]]))
        x0, com0 = atoms.positions.copy(), atoms.get_center_of_mass()
        counters["executions"] += 1
        try:
            for k, fi in enumerate(seq):
                zq, uq = firsts[fi]
                later = []
                for _ in range(10):
                    later += [0.5 + 0.01 * ((j % 3) - 1) for j in range(9)] + [0.0] * 9
                sim._rng = QuantileRNG(list(zq) + list(uq) + later)
                with np.errstate(all="ignore"):
                    sim.run(1)
                counters["trials"] += 1
                counters["nontrivial"] += 1
                where = f"ForceBias delta={delta} T={T} {cons} step {k + 1} answers {seq}"
                for i in fixed:
                    if not np.array_equal(atoms.positions[i], x0[i]):
                        sig = "C12/ForceBias/FixAtoms/fixed-atom-moved"
                        seen[sig] = seen.get(sig, 0) + 1
                        if seen[sig] <= 2:
                            viol.append({"signature": sig, "what": f"fixed atom {i} moved by {js(atoms.positions[i] - x0[i])}; {where}", "replay": {"check": PID, "func": "task_forcebias", "arg": arg}})
                if cons == "fixcom" and np.abs(atoms.get_center_of_mass() - com0).max() > 1e-10:
                    sig = "C12/ForceBias/FixCom/centre-of-mass-drifted"
                    seen[sig] = seen.get(sig, 0) + 1
                    if seen[sig] <= 2:
                        viol.append({"signature": sig, "what": f"centre of mass moved by {np.abs(atoms.get_center_of_mass() - com0).max():.3g}; {where}", "replay": {"check": PID, "func": "task_forcebias", "arg": arg}})
                if np.abs(atoms.positions - x0).max() == 0:
                    sig = "C12/ForceBias/nothing-moved"
                    seen[sig] = seen.get(sig, 0) + 1
                    if seen[sig] <= 1:
                        viol.append({"signature": sig, "what": where, "replay": {}})
        finally:
            sim.close()
    return {"counters": counters, "violations": viol, "samples": []}


def task_fixrot(arg):
    from quansino.constraints import FixRot

    counters = {"executions": 0, "trials": 0, "nontrivial": 0}
    viol, seen = [], {}
    sites = [np.array([i, j, k], dtype=float) * 1.1 for i in range(3) for j in range(3) for k in range(2)]
    n = arg["n"]
    mass_sets = [[1.0] * 4, [1.0, 12.0, 63.5, 12.0], [63.5] * 4, [12.0, 1.0, 1.0, 63.5]]
    pats = [np.array(p, dtype=float) for p in ([1, 0, 0, 0, 1, 0, 0, 0, 1, 1, 1, 1], [1, -1, 0, 0, 1, -1, -1, 0, 1, 0, 0, 1], [0, 0, 1, 0, 0, -1, 1, 1, 0, -1, 0, 0], [1, 1, 1, -1, -1, -1, 1, 0, -1, 0, 1, 0], [-1, 0, 1, 1, 0, -1, 0, 1, 0, 1, -1, 1], [0, 1, 0, 0, 0, 0, 0, 0, 0, 0, 0, 0])]
    combos = list(itertools.combinations(range(len(sites)), n))[arg.get("part", 0) :: arg.get("parts", 1)]
    shared = FixRot()  # the same constraint object is applied again after the atoms moved
    for combo in combos:
        pos = np.array([sites[i] for i in combo])
        # skip collinear placements (the statement excludes them)
        c = pos - pos.mean(0)
        if np.linalg.matrix_rank(c, tol=1e-9) < 2:
            continue
        for masses in mass_sets:
            atoms = Atoms("C" * n, positions=pos, cell=[10] * 3)
            atoms.set_masses(masses[:n])
            for pat in pats:
                p0 = pat[: 3 * n].reshape(n, 3) * np.sqrt(np.array(masses[:n]))[:, None]
                p = p0.copy()
                (shared if arg.get("reuse") else FixRot()).adjust_momenta(atoms, p)
                counters["trials"] += 1
                r = pos - atoms.get_center_of_mass()
                L0 = np.cross(r, p0).sum(0)
                L = np.cross(r, p).sum(0)
                scale = max(1.0, np.abs(np.cross(r, p0)).sum())
                if np.abs(L0).max() > 1e-9:
                    counters["nontrivial"] += 1
                where = f"positions {js(pos)} masses {masses[:n]} momenta {js(p0)}"
                if not np.all(np.isfinite(p)) or np.abs(L).max() > 1e-9 * scale:
                    sig = f"C12/FixRot/n{n}/angular-momentum-not-removed" + ("/constraint-object-reused" if arg.get("reuse") else "")
                    seen[sig] = seen.get(sig, 0) + 1
                    if seen[sig] <= 2:
                        viol.append({"signature": sig, "what": f"L after adjust_momenta = {js(L)} (before {js(L0)}); {where}", "replay": {}})
                elif np.abs(p.sum(0) - p0.sum(0)).max() > 1e-9 * max(1.0, np.abs(p0).sum()):
                    sig = f"C12/FixRot/n{n}/linear-momentum-changed"
                    seen[sig] = seen.get(sig, 0) + 1
                    if seen[sig] <= 2:
                        viol.append({"signature": sig, "what": f"total momentum {js(p0.sum(0))} became {js(p.sum(0))}; {where}", "replay": {}})
    return {"counters": counters, "violations": viol, "samples": []}


def run(tier, seed):
    rep = Report("model_checking")
    acc = Acc()
    sp = specs(tier)
    for r in pmap(__name__, "task", sp):
        acc.add(r)
    fb = [{"constraint": c, "delta": d, "T": T, "steps": 2 if tier == "quick" else 3, "custom_masses": cm} for c in ("fix:0", "fix:1,2", "fixcom") for d in (0.05, 0.5) for T in (300.0, 3000.0) for cm in (False, True)]
    for r in pmap(__name__, "task_forcebias", fb):
        acc.add(r)
    fr = [{"n": 3, "part": i, "parts": 8} for i in range(8)] + [{"n": 4, "part": i, "parts": 32 if tier == "quick" else 8} for i in range(8)]
    fr += [{"n": 3, "part": i, "parts": 8, "reuse": True} for i in range(0, 8, 2)]
    for r in pmap(__name__, "task_fixrot", fr):
        acc.add(r)
    rep.violations = acc.violations
    rep.coverage = {
        "states": len(acc.sets.get("states", ())) + acc.n("trials"),
        "transitions": acc.n("transitions") + acc.n("trials"),
        "traces_validated_against_impl": acc.n("executions"),
        "executions": acc.n("executions"),
        "trials_and_adjustments_judged": acc.n("trials"),
        "nontrivial": acc.n("nontrivial"),
        "systems": len(sp),
        "outcomes": sorted(acc.sets.get("states", ())),
        "bound": "all accept/reject/fail histories to depth 2 (quick) / 3 (thorough) for FixAtoms on every subset of <= 2 atoms and FixCom x {D(Ball), D(Translation), D*2, D+D, molecule Rotation/TranslationRotation, H(Verlet 1fs x 3, 2fs x 1)}; ForceBias: all sequences of 2-3 steps over 3 prescribed (zeta,u) first-round patterns x delta {0.05,0.5} x T {300,3000}; FixRot: every non-collinear 3-atom placement on a 3x3x2 lattice (4 atoms: every 4th in quick) x 4 mass sets x 6 momentum patterns",
        "exhaustive": True,
        "samples": [{"system": js(sp[0]), "invariant": "positions of fixed atoms bitwise equal to the start; |COM drift| <= 1e-10"}],
    }
    rep.assumptions = ["FixAtoms and FixCom are not combined (ASE applies constraints sequentially; the combination moves the fixed atom inside ASE itself)", "cell moves rescale all atoms by design and are not judged"]
    return rep


def replay(data):
    f = {"task": task, "task_forcebias": task_forcebias}[data["func"]]
    res = f(data["arg"])
    return {"signatures": sorted({v["signature"] for v in res["violations"]})}
