"""C02 - acceptance decisions equal the textbook Metropolis rule.

Grid enumeration of every shipped criteria on directly built contexts (prescribed energies,
cells, particle numbers, chemical potentials, stresses): the threshold the code compares its
uniform draw with is captured (AcceptDraw) and compared in log space with the textbook formula
computed from independent constants; the boolean decision is then re-evaluated with scripted
uniforms one ulp either side of the code's own threshold.  Parameter changes made on the
simulation object between trials are explored as choice points of real simulations.
"""

from __future__ import annotations

import itertools
import math

import numpy as np
from ase import units
from ase.atoms import Atoms
from ase.calculators.calculator import Calculator, all_changes

from qv.core import Chooser, HarnessError, explore, js
from qv.rngx import ChoiceRNG, Policy, ScriptedRNG, install
from qv.runner import Acc, Report, pmap

PID = "C02"
kB = units.kB


class ConstE(Calculator):
    implemented_properties = ["energy", "forces"]

    def __init__(self, e):
        super().__init__()
        self.e = float(e)

    def calculate(self, atoms=None, properties=("energy",), system_changes=all_changes):
        super().calculate(atoms, properties, system_changes)
        self.results = {"energy": self.e, "forces": np.zeros((len(self.atoms), 3))}


def lam_cubed(mass_amu, T):
    """Thermal de Broglie wavelength cubed in A^3 from ase.units constants."""
    m = mass_amu * units._amu
    kt = units.kB * T * units._e  # J
    lam = units._hplanck / math.sqrt(2 * math.pi * m * kt)  # m
    return (lam * 1e10) ** 3


def capture(crit, ctx):
    """Evaluate with a choice-point generator; return the captured threshold (or exception)."""
    ch = Chooser()
    rng = ChoiceRNG(ch)
    ctx.rng = rng
    try:
        crit.evaluate(ctx)
    except HarnessError:
        raise
    except Exception as e:  # noqa: BLE001
        return None, f"{type(e).__name__}"
    if len(rng.thresholds) != 1 or rng.uncaptured:
        raise HarnessError(f"criteria made {len(rng.thresholds)} comparisons / {rng.uncaptured} uncaptured draws")
    return rng.thresholds[0], None


def decisions(crit, ctx, t):
    """Decision for scripted uniforms around the code's own threshold."""
    us = {0.0, 1.0 - 2.0**-53}
    if 0.0 < t < 1.0:
        us |= {t, float(np.nextafter(t, 0.0)), float(np.nextafter(t, 2.0))}
    elif t >= 1.0:
        us |= {0.5}
    bad = []
    for u in sorted(x for x in us if 0.0 <= x < 1.0):
        ctx.rng = ScriptedRNG([u])
        got = bool(crit.evaluate(ctx))
        if got != (u < t):
            bad.append((u, got))
    return bad, len(us)


def judge(t, err, logA, tol, sig0, where, add, counters, crit=None, ctx=None):
    counters["evaluations"] += 1
    if err is not None:
        add(f"{sig0}/exception:{err}/{'favourable' if logA > 0 else 'unfavourable'}", f"evaluate raised {err}; log A = {logA:.6g}; {where}")
        return
    if t != t:
        add(f"{sig0}/nan-threshold", f"threshold is NaN; {where}")
        return
    if logA >= 0:
        ok = t >= 1.0
    elif t <= 0.0:
        ok = logA < -700.0
    elif t < 2.3e-308:
        # a subnormal threshold carries only a few bits: it is right when exp(log A) is subnormal too
        ok = -746.0 < logA < -707.0
    else:
        ok = abs(math.log(t) - logA) <= tol * max(1.0, abs(logA))
    if 0.0 < t < 1.0:
        counters["nontrivial"] += 1
    if not ok:
        add(f"{sig0}/threshold-differs", f"threshold {t!r} (log {math.log(t) if t > 0 else float('-inf'):.12g}) vs textbook log A = {logA:.12g}; {where}")
        return
    if crit is not None:
        bad, n = decisions(crit, ctx, t)
        counters["decisions"] += n
        if bad:
            add(f"{sig0}/decision-differs-from-u<t", f"u={bad[0][0]!r} gave {bad[0][1]} with threshold {t!r}; {where}")


T_GRID = [1e-3, 1.0, 300.0, 1e5]
DE_GRID = [0.0, 1e-9, -1e-9, 1e-2, -1e-2, 1.0, -1.0, 100.0, -100.0, 1e6, -1e6]
CELLS = {
    "cubic": np.diag([5.0, 5.0, 5.0]),
    "ortho": np.diag([4.0, 5.0, 6.5]),
    "triclinic": np.array([[5.0, 0.0, 0.0], [1.0, 4.5, 0.0], [0.5, 0.8, 6.0]]),
    "left-handed": np.array([[1.0, 4.5, 0.0], [5.0, 0.0, 0.0], [0.5, 0.8, 6.0]]),  # a legal cell with negative determinant
}
DEFORMS = {
    "identity": np.eye(3),
    "iso+5%": 1.05 * np.eye(3),
    "iso-5%": 0.95 * np.eye(3),
    "shear": np.array([[1.0, 0.04, 0.0], [0.04, 1.0, 0.0], [0.0, 0.0, 1.0]]),
    "general": np.array([[1.03, 0.02, -0.01], [0.02, 0.97, 0.015], [-0.01, 0.015, 1.01]]),
    "upper-triangular": np.array([[1.02, 0.03, -0.01], [0.0, 0.98, 0.02], [0.0, 0.0, 1.01]]),
}
N_GRID = [0, 1, 2, 5, 6000, 50]  # 6000: (N+1) ln(V'/V) beyond the range of exp()
P_GRID = [0.0, 0.01, -0.01, 1.0]


def sub(lst, tier):
    return lst if tier == "thorough" else lst[::2] if len(lst) > 3 else lst


def mk_atoms(n, cell, e):
    rng = np.random.default_rng(12345)
    atoms = Atoms("Ar" * n if n else "", positions=rng.uniform(0, 3, (n, 3)) if n else None, cell=cell, pbc=True)
    atoms.calc = ConstE(e)
    return atoms


def _adder():
    viol, seen = [], {}

    def add(sig, what):
        seen[sig] = seen.get(sig, 0) + 1
        if seen[sig] <= 2:
            viol.append({"signature": sig, "what": what, "replay": {}})

    return viol, seen, add


def task_canonical(arg):
    from quansino.mc.contexts import DisplacementContext, HamiltonianDisplacementContext
    from quansino.mc.criteria import CanonicalCriteria, HamiltonianCanonicalCriteria

    tier = arg["tier"]
    counters = {"evaluations": 0, "nontrivial": 0, "decisions": 0}
    viol, seen, add = _adder()
    for T in T_GRID:
        for dE in DE_GRID if tier == "thorough" else DE_GRID:
            atoms = mk_atoms(2, CELLS["cubic"], 3.0 + dE)
            ctx = DisplacementContext(atoms, None)
            ctx.temperature = T
            ctx.last_potential_energy = 3.0
            crit = CanonicalCriteria()
            t, err = capture(crit, ctx)
            judge(t, err, -dE / (kB * T) if dE else 0.0, 1e-9, "C02/canonical", f"T={T} dE={dE}", add, counters, crit, ctx)
            # Hamiltonian: total-energy change
            for dK in sub([0.0, 0.5, -0.5, 30.0, -30.0], tier):
                atoms = mk_atoms(2, CELLS["cubic"], 3.0 + dE)
                k_old = 40.0
                k_new = k_old + dK
                m = atoms.get_masses()
                p = np.zeros((2, 3))
                p[0, 0] = math.sqrt(2 * m[0] * k_new)
                atoms.set_momenta(p)
                ctx = HamiltonianDisplacementContext(atoms, None)
                ctx.temperature = T
                ctx.last_potential_energy = 3.0
                ctx.last_kinetic_energy = k_old
                crit = HamiltonianCanonicalCriteria()
                t, err = capture(crit, ctx)
                dH = (3.0 + dE + atoms.get_kinetic_energy()) - 3.0 - k_old
                judge(t, err, -dH / (kB * T), 1e-9, "C02/hamiltonian", f"T={T} dE={dE} dK={dK}", add, counters, crit, ctx)
    return {"counters": counters, "violations": viol, "seen": seen}


def strain_candidates(h0, h):
    """Admissible strain measures for cells with row vectors h0 -> h."""
    F_row = np.linalg.inv(h0) @ h  # h = h0 @ F_row   (row convention)
    F_col = F_row.T
    I = np.eye(3)
    return {
        "green-lagrange-col": 0.5 * (F_col.T @ F_col - I),
        "green-lagrange-row": 0.5 * (F_row.T @ F_row - I),
        "infinitesimal": 0.5 * (F_col + F_col.T) - I,
    }


def task_npt(arg):
    from ase.cell import Cell

    from quansino.mc.contexts import DeformationContext
    from quansino.mc.criteria import IsobaricCriteria, IsotensionCriteria

    tier, cname = arg["tier"], arg["cell"]
    counters = {"evaluations": 0, "nontrivial": 0, "decisions": 0}
    viol, seen, add = _adder()
    notes = set()
    h0 = CELLS[cname]
    for dname, F in DEFORMS.items():
        h = F @ h0  # CellMove convention: deformation_gradient @ old_cell
        V0, V1 = abs(np.linalg.det(h0)), abs(np.linalg.det(h))
        for T in sub(T_GRID, tier):
            for dE in sub(DE_GRID, tier):
                for N in sub(N_GRID, tier):
                    for P in P_GRID:
                        atoms = mk_atoms(N, h, 1.0 + dE)
                        ctx = DeformationContext(atoms, None)
                        ctx.temperature, ctx.pressure = T, P
                        ctx.last_potential_energy = 1.0
                        ctx.last_cell = Cell(h0.copy())
                        where = f"cell={cname} deform={dname} T={T} dE={dE} N={N} P={P}"
                        logA_npt = -(dE + P * (V1 - V0)) / (kB * T) + (N + 1) * math.log(V1 / V0)
                        crit = IsobaricCriteria()
                        t_iso, err = capture(crit, ctx)
                        judge(t_iso, err, logA_npt, 1e-9, "C02/isobaric", where, add, counters, crit, ctx)
                        # isotension, hydrostatic stress: identical to isobaric
                        for sname in ("hydrostatic", "zero", "diag", "sheared", "nonsymmetric", "integer-zero", "integer-diag"):
                            S = {
                                "integer-zero": np.zeros((3, 3), dtype=int),  # a stress the user wrote with integer entries
                                "integer-diag": np.diag([1, 0, -1]),
                                "nonsymmetric": np.array([[0.01, 0.004, 0.0], [0.001, 0.02, -0.003], [0.002, 0.0, 0.005]]),
                                "hydrostatic": P * np.eye(3),
                                "zero": np.zeros((3, 3)),
                                "diag": np.diag([0.01, 0.02, -0.005]),
                                "sheared": np.array([[0.01, 0.004, 0.0], [0.004, 0.02, -0.003], [0.0, -0.003, 0.005]]),
                            }[sname]
                            if tier == "quick" and sname == "diag":
                                continue
                            ctx.external_stress = S.copy()
                            S = np.asarray(S, dtype=float)
                            crit = IsotensionCriteria()
                            t, err = capture(crit, ctx)
                            if sname == "hydrostatic":
                                judge(t, err, logA_npt, 1e-9, "C02/isotension/hydrostatic-equals-isobaric", where, add, counters, crit, ctx)
                                continue
                            eps = getattr(crit, "strain_tensor", None)
                            if err is None and eps is None:
                                counters["evaluations"] += 1
                                continue  # strain not exposed: only the hydrostatic clause is decidable
                            if err is None:
                                eps = np.asarray(eps, dtype=float)
                                if dname == "identity" and np.abs(eps).max() > 1e-12:
                                    add("C02/isotension/strain-nonzero-for-unchanged-cell", f"strain {js(eps)}; {where}")
                                for k, c in strain_candidates(h0, h).items():
                                    if np.allclose(c, eps, atol=1e-12):
                                        notes.add(k)
                                half = 0.5 * strain_candidates(h0, h)["infinitesimal"]
                                if dname != "identity" and np.allclose(eps, 0.5 * ((np.linalg.inv(h0) @ h).T - np.eye(3)), atol=1e-12):
                                    notes.add("half-of-(F-1)")
                                logA = logA_npt - V0 * float(np.trace((S - P * np.eye(3)) @ eps)) / (kB * T)
                            else:
                                logA = logA_npt
                            judge(t, err, logA, 1e-9, f"C02/isotension/{sname}-stress", where + f" S={sname}", add, counters, crit, ctx)
    return {"counters": counters, "violations": viol, "seen": seen, "notes": sorted(notes)}


def task_gc(arg):
    from quansino.mc.contexts import ExchangeContext
    from quansino.mc.criteria import GrandCanonicalCriteria

    tier = arg["tier"]
    counters = {"evaluations": 0, "nontrivial": 0, "decisions": 0}
    viol, seen, add = _adder()
    species = {"H": Atoms("H"), "Cu": Atoms("Cu"), "H2O": Atoms("H2O", positions=[[0, 0, 0], [0, 0.76, 0.59], [0, -0.76, 0.59]])}
    species["D"] = Atoms("H")  # an isotope: masses set by the user differ from the tabulated ones
    species["D"].set_masses([2.014])
    species["HDO"] = species["H2O"].copy()
    species["HDO"].set_masses([15.999, 1.008, 2.014])
    for T in arg["T"]:
        for dE in sub(DE_GRID, tier):
            for nex in [0, 1, 2, 10, 1000]:
                for delta in (+1, -1):
                    if delta < 0 and nex == 0:
                        continue
                    for mu in sub([-10.0, -0.5, 0.0, 0.5, 10.0], tier):
                        for sname, ex in species.items():
                            for V in sub([1.0, 216.0, 1e6], tier):
                                atoms = mk_atoms(3, CELLS["cubic"], 2.0 + dE)
                                ctx = ExchangeContext(atoms, None)
                                ctx.temperature = T
                                ctx.last_potential_energy = 2.0
                                ctx.chemical_potential = mu
                                ctx.number_of_exchange_particles = nex
                                ctx.particle_delta = delta
                                ctx.exchange_atoms = ex.copy()
                                ctx.accessible_volume = V
                                L3 = lam_cubed(ex.get_masses().sum(), T)
                                if delta > 0:
                                    logA = math.log(V) - math.log(L3) - math.log(nex + 1) + (mu - dE) / (kB * T)
                                    kind = "insertion"
                                else:
                                    logA = math.log(L3) + math.log(nex) - math.log(V) + (-mu - dE) / (kB * T)
                                    kind = "deletion"
                                crit = GrandCanonicalCriteria()
                                t, err = capture(crit, ctx)
                                judge(t, err, logA, 1e-7, f"C02/grand-canonical/{kind}", f"T={T} dE={dE} N={nex} mu={mu} species={sname} V={V}", add, counters, crit, ctx)
    return {"counters": counters, "violations": viol, "seen": seen}


# ---------------------------------------------------------------- parameter changes on the simulation object
PARAMS = {
    "Canonical": [("temperature", [150.0, 900.0])],
    "Isobaric": [("temperature", [150.0, 900.0]), ("pressure", [0.0, 0.02])],
    "Isotension": [("temperature", [900.0]), ("pressure", [0.02]), ("external_stress", [np.diag([0.01, 0.0, -0.01]), np.array([[0.0, 0.01, 0.0], [0.01, 0.0, 0.0], [0.0, 0.0, 0.02]])])],
    "GrandCanonical": [("temperature", [900.0]), ("chemical_potential", [-0.3, 0.2]), ("accessible_volume", [50.0]), ("number_of_exchange_particles", [7]), ("exchange_atoms", ["Kr"])],
}


def task_params(arg):
    """Explorer sequences (set one parameter on the simulation; one trial), length <= depth."""
    from qv.drive import RecordingCriteria
    from qv.systems import build

    ens, depth = arg["ens"], arg["depth"]
    table = {"Canonical": [["d", "D_ball"]], "Isobaric": [["c", "C_iso"]], "Isotension": [["c", "C_aniso"]], "GrandCanonical": [["e", "E_trans"]]}[ens]
    spec = dict(ens=ens, atoms="A2", table=table, calc="harmonic", T=300.0, P=0.005, mu=-0.1)
    counters = {"evaluations": 0, "nontrivial": 0, "decisions": 0, "executions": 0}
    viol, seen, add = _adder()
    menu = [(name, v) for name, vals in PARAMS[ens] for v in vals] + [(None, None)]
    pol = Policy(uniform_q=(0.2, 0.8), angular_q=None, product_limit=0, branch_calls=1)

    def run(ch):
        sysm = build(spec)
        mc = sysm.mc
        rng = ChoiceRNG(ch, pol)
        install(mc, rng)
        sink = []
        for st in mc.moves.values():
            st.criteria = RecordingCriteria(st.criteria, sink)
        obs = []
        for _ in range(depth):
            ch.mark()
            i = ch.pick("user", len(menu), None, [m[0] for m in menu])
            name, val = menu[i]
            if name == "exchange_atoms":
                val = Atoms(val)
            if name is not None:
                setattr(mc, name, val.copy() if hasattr(val, "copy") else val)
            pre = {"pos": sysm.atoms.positions.copy(), "cell": sysm.atoms.cell.array.copy(), "n": len(sysm.atoms)}
            n0 = len(rng.thresholds)
            del sink[:]
            try:
                mc.run(1)
            except Exception as e:  # noqa: BLE001
                obs.append({"error": f"{type(e).__name__}: {e}", "set": name})
                break
            if not sink:
                continue
            ac = sink[-1]
            T, P = mc.temperature, getattr(mc, "pressure", None)
            # energies from the harness potential, never from the context
            calc = sysm.calc_factory()
            e_new = calc.energy_of(ac["positions"]) if ac["n"] else 0.0
            e_old = calc.energy_of(pre["pos"]) if pre["n"] else 0.0
            dE = e_new - e_old
            if ens == "Canonical":
                logA = -dE / (kB * T)
            elif ens in ("Isobaric", "Isotension"):
                V0, V1 = abs(np.linalg.det(pre["cell"])), abs(np.linalg.det(ac["cell"]))
                logA = -(dE + P * (V1 - V0)) / (kB * T) + (ac["n"] + 1) * math.log(V1 / V0)
                if ens == "Isotension":
                    eps = getattr(mc.moves["c"].criteria.inner, "strain_tensor", None)
                    if eps is None:
                        continue
                    logA -= V0 * float(np.trace((np.asarray(mc.external_stress) - P * np.eye(3)) @ eps)) / (kB * T)
            else:
                L3 = lam_cubed(mc.exchange_atoms.get_masses().sum(), T)
                V, mu, nex = mc.accessible_volume, mc.chemical_potential, ac["nex"]
                if ac["particle_delta"] > 0:
                    logA = math.log(V / (L3 * (nex + 1))) + (mu - dE) / (kB * T)
                else:
                    logA = math.log(L3 * nex / V) + (-mu - dE) / (kB * T)
            obs.append({"set": name, "t": rng.thresholds[-1] if len(rng.thresholds) > n0 else None, "logA": logA})
        sysm.close()
        return obs

    for ch, obs in explore(run):
        counters["executions"] += 1
        for o in obs:
            if "error" in o:
                add(f"C02/parameter-change/{ens}/{o['set']}/exception", o["error"])
                continue
            if o["t"] is None:
                continue
            judge(o["t"], None, o["logA"], 1e-7 if ens == "GrandCanonical" else 1e-9, f"C02/parameter-change/{ens}/{o['set'] or 'unchanged'}", f"after setting {o['set']}", add, counters)
    return {"counters": counters, "violations": viol, "seen": seen}


# ---------------------------------------------------------------- real trials, textbook rule from the harness's own bookkeeping
REAL_SPECS = [
    dict(ens="GrandCanonical", atoms="M1", table=[["e", "E_transrot"]], calc="harmonic", T=300.0, mu=-0.1, depth=2, tag="molecular-exchange"),
    dict(ens="GrandCanonical", atoms="M", table=[["e", "E_transrot"], ["d", "D_rot"]], calc="harmonic", T=400.0, mu=-0.05, depth=2, tag="molecular-exchange+rotation"),
    dict(ens="GrandCanonical", atoms="A2", table=[["e", "E_trans"], ["d", "D_ball"]], calc="harmonic", T=300.0, mu=-0.1, depth=2, check=True, tag="atomic-exchange+displacement"),
    dict(ens="GrandCanonical", atoms="A2", table=[["e", "E_trans*2"], ["f", "E_trans"]], calc="harmonic", T=300.0, mu=-0.1, depth=2, max_depth=2, check=True, tag="composite-exchange-vetoed-members"),
    dict(ens="HamiltonianCanonical", atoms="A3", table=[["h", "H"]], calc="harmonic", T=300.0, depth=2, check=True, tag="hamiltonian-vetoed-attempts"),
    dict(ens="HamiltonianCanonical", atoms="A3", table=[["h", "H1"], ["d", "D_ball"]], calc="quartic", T=500.0, depth=2, decos=["momenta"], tag="hamiltonian+displacement"),
    dict(ens="Canonical", atoms="M", table=[["r", "D_rot"], ["t", "D_trans"]], calc="harmonic", T=300.0, depth=2, check=True, tag="canonical-molecule"),
    dict(ens="Canonical", atoms="A3", table=[["d", "D_ball"]], calc="harmonic", T=1500.0, depth=3, decos=["hookean"], tag="canonical-energy-adjusting-constraint"),
    dict(ens="Isobaric", atoms="A3", table=[["c", "C_iso"], ["d", "D_ball"]], calc="harmonic", T=1500.0, P=0.005, depth=2, decos=["hookean"], tag="isobaric-energy-adjusting-constraint"),
    dict(ens="Isobaric", atoms="A3", table=[["c", "C_iso"], ["d", "D_ball"]], calc="harmonic", T=300.0, P=0.005, depth=2, check=True, tag="isobaric+displacement"),
    dict(ens="Isobaric", atoms="T3", table=[["c", "C_aniso_ns"]], calc="harmonic", T=300.0, P=0.005, depth=2, tag="isobaric-unscaled"),
]


def task_real(spec):
    """Every execution (proposal answers, geometric-check answers, verdicts) of a real simulation;
    the threshold of each trial that reached its criteria is compared with the textbook value
    computed from the configurations before/at the criteria and from the harness's own count of
    accepted insertions and deletions (nothing is read from the context)."""
    from qv.drive import execute

    depth = spec["depth"]
    ens = spec["ens"]
    tag = spec["tag"]
    pol = Policy(uniform_q=(0.2, 0.8), angular_q=None, normal_z=(-1.0, 0.6), product_limit=0, branch_calls=1)
    counters = {"evaluations": 0, "nontrivial": 0, "decisions": 0, "executions": 0}
    viol, seen, add0 = _adder()
    T = spec["T"]
    kT = kB * T
    cur = {}

    def add(sig, what):
        add0(sig, what)
        if viol and viol[-1]["signature"] == sig and not viol[-1]["replay"]:
            viol[-1]["replay"] = {"check": PID, "func": "task_real", "arg": {**{k: v for k, v in spec.items() if k != "only"}, "only": list(cur["ch"].choices)}}

    def run(ch):
        sysm, trials = execute(spec, ch, depth, pol)
        mc = sysm.mc
        info = {
            "masses0": sysm.atoms.get_masses().copy(),
            "calc": sysm.calc_factory(),
            "template": len(mc.exchange_atoms) if hasattr(mc, "exchange_atoms") else 0,
            "template_mass": float(mc.exchange_atoms.get_masses().sum()) if hasattr(mc, "exchange_atoms") else 0.0,
            "V": getattr(mc, "accessible_volume", None),
            "ref": sysm.atoms.copy(),
        }
        op = next((getattr(m, "operation", None) for m in sysm.entries.values() if type(m).__name__ == "HamiltonianDisplacementMove"), None)
        if op is not None:
            info["integ"] = (float(op.dt), int(op.max_steps))
        sysm.close()
        return trials, info

    def arr(snap, name):
        a = snap["arrays"][name]
        return np.frombuffer(a[2], dtype=a[0]).reshape(a[1])

    def back_verlet(info, x, p, m):
        """Reference velocity Verlet run backwards (time reversal) from the proposed state."""
        a = info["ref"].copy()
        a.calc = info["calc"]
        dt, n = info["integ"]
        a.positions = x
        f = a.get_forces()
        x, p = x.copy(), -p.copy()
        for _ in range(n):
            ph = p + 0.5 * f * dt
            x = x + ph / m[:, None] * dt
            a.positions = x
            f = a.get_forces()
            p = ph + 0.5 * f * dt
        return x, -p

    if spec.get("only") is not None:
        ch1 = Chooser(spec["only"])
        gen = [(ch1, run(ch1))]
    else:
        gen = explore(run)
    for ch, (trials, info) in gen:
        cur["ch"] = ch
        counters["executions"] += 1
        calc = info["calc"]
        from qv.systems import base_atoms

        labels = spec.get("labels", base_atoms(spec["atoms"])[1]["labels"])
        N = spec.get("nex", len({l for l in labels if l >= 0}))
        for t in trials:
            if t.error is not None:
                add(f"C02/real/{tag}/exception:{t.error['type']}@{t.error['qwhere']}", t.error["msg"])
                break
            ac = t.at_criteria
            if ac is None or not t.thresholds or t.pre is None:
                continue
            x0 = arr(t.pre, "positions")
            n0 = t.pre["n"]
            if "hookean" in spec.get("decos", ()):
                # the energy the statement speaks of is the one the Atoms object reports (calculator
                # plus energy-adjusting constraints): evaluate it on a copy with a fresh calculator
                def e_of(x, cell):
                    a = info["ref"].copy()
                    a.calc = info["calc"]
                    a.set_cell(cell, scale_atoms=False)
                    a.positions = x
                    return float(a.get_potential_energy())

                ck0 = t.pre["cell"]
                e_old = e_of(x0, np.frombuffer(ck0[2], dtype=ck0[0]).reshape(ck0[1]))
                e_new = e_of(ac["positions"], ac["cell"])
            else:
                e_old = calc.energy_of(x0) if n0 else 0.0
                e_new = calc.energy_of(ac["positions"]) if ac["n"] else 0.0
            dE = e_new - e_old
            thr = t.thresholds[-1]
            where = f"{tag}: trial of {t.name}, history {js([[x.name, x.verdict] for x in trials])}"
            dn = ac["n"] - n0
            if dn and (not info["template"] or dn % info["template"]):
                add(f"C02/real/{tag}/atom-count-not-a-multiple-of-the-template", where)
                break
            if ens == "GrandCanonical" and dn:
                k = dn // info["template"]
                if abs(k) != 1:
                    if t.verdict is True:
                        if k > 1:
                            # particles inserted together share one label on the pinned tree (known
                            # finding C05/E*2/label-shared-between-particles): what counts as one
                            # particle afterwards is ambiguous, so the rest of this execution is not judged
                            counters["executions_cut_after_multi_insertion"] = counters.get("executions_cut_after_multi_insertion", 0) + 1
                            break
                        N += k
                    continue  # several particles in one trial: not a clause of the statement
                L3 = lam_cubed(info["template_mass"], T)
                V, mu = info["V"], spec["mu"]
                if k > 0:
                    logA = math.log(V / (L3 * (N + 1))) + (mu - dE) / kT
                else:
                    logA = math.log(L3 * N / V) + (-mu - dE) / kT
                judge(thr, None, logA, 1e-7, f"C02/real/{tag}/{'insertion' if k > 0 else 'deletion'}", where + f" N={N}", add, counters)
                if t.verdict is True:
                    N += k
                continue
            if t.name == "h" and "integ" in info:
                m = arr(t.pre, "masses") if "masses" in t.pre["arrays"] else info["masses0"]
                p1 = ac["momenta"]
                xb, pb = back_verlet(info, ac["positions"], p1, m)
                if np.abs(xb - x0).max() > 1e-8:
                    counters["not_reversible_to_pre_trial_positions"] = counters.get("not_reversible_to_pre_trial_positions", 0) + 1
                    continue  # the proposal is not a trajectory from the pre-trial positions: C14's statement
                k_old = float((pb**2 / (2 * m[:, None])).sum())
                k_new = float((p1**2 / (2 * m[:, None])).sum())
                logA = -((e_new + k_new) - (e_old + k_old)) / kT
                judge(thr, None, logA, 1e-7, f"C02/real/{tag}/hamiltonian", where, add, counters)
                continue
            if ens in ("Isobaric", "Isotension") and t.name == "c":
                ck = t.pre["cell"]
                c0 = np.frombuffer(ck[2], dtype=ck[0]).reshape(ck[1])
                V0, V1 = abs(np.linalg.det(c0)), abs(np.linalg.det(ac["cell"]))
                logA = -(dE + spec["P"] * (V1 - V0)) / kT + (ac["n"] + 1) * math.log(V1 / V0)
                judge(thr, None, logA, 1e-9, f"C02/real/{tag}/cell", where, add, counters)
                continue
            judge(thr, None, -dE / kT, 1e-9, f"C02/real/{tag}/displacement", where, add, counters)
    return {"counters": counters, "violations": viol, "seen": seen}


def run(tier, seed):
    rep = Report("exploration")
    acc = Acc()
    jobs = [("task_canonical", {"tier": tier})]
    jobs += [("task_npt", {"tier": tier, "cell": c}) for c in CELLS]
    jobs += [("task_gc", {"tier": tier, "T": [T]}) for T in T_GRID]
    jobs += [("task_params", {"ens": e, "depth": 2 if tier == "quick" else 3}) for e in PARAMS]
    jobs += [("task_real", {**sp, "depth": min(sp["depth"] + (1 if tier == "thorough" else 0), sp.get("max_depth", 99))}) for sp in REAL_SPECS]
    notes = set()
    results = []
    from qv import runner

    payload_groups = {}
    for f, a in jobs:
        payload_groups.setdefault(f, []).append(a)
    for f, args in payload_groups.items():
        for r in pmap(__name__, f, args):
            acc.add(r)
            notes.update(r.get("notes", []))
            for s, n in r.get("seen", {}).items():
                acc.counters["violating_points"] = acc.counters.get("violating_points", 0) + n
    rep.violations = acc.violations
    if notes:
        rep.observations.append(f"isotension strain measure exposed by the criteria matches: {sorted(notes)} (the property does not pin the measure)")
    rep.coverage = {
        "evaluations": acc.n("evaluations"),
        "distinct_nontrivial": acc.n("nontrivial"),
        "rule": "grid points of (T, dE, cell pair, N, P, S, mu, species mass, volume, N_ex, +-1) per criteria class; non-trivial = captured threshold strictly between 0 and 1; every point additionally re-evaluated with scripted uniforms {0, t-ulp, t, t+ulp, 1-2^-53}",
        "scripted_decisions": acc.n("decisions"),
        "parameter_change_executions": acc.n("executions"),
        "violating_points": acc.n("violating_points"),
        "strain_measure_observed": sorted(notes),
        "exhaustive": True,
        "samples": [
            {"criteria": "IsobaricCriteria", "cell": "triclinic", "deform": "general", "T": 300.0, "dE": -0.01, "N": 5, "P": 0.01},
            {"criteria": "GrandCanonicalCriteria", "T": 300.0, "dE": 1e-2, "N": 10, "delta": -1, "mu": -0.5, "species": "H2O", "V": 216.0},
        ],
    }
    rep.assumptions = ["textbook formulas evaluated with ase.units constants; 1e-7 log-tolerance where the de Broglie wavelength enters (CODATA amu vs 1e-3/N_A)", "nothing is claimed between grid points"]
    return rep


def replay(data):
    res = {"task_real": task_real}[data["func"]](data["arg"])
    return {"signatures": sorted({v["signature"] for v in res["violations"]})}
