"""Stateless exhaustive explorer: choice points, prefix replay, depth-first enumeration.

An *execution* of a closed system is identified by the list of branch indices taken at its
choice points.  ``explore(run)`` enumerates every execution the menus admit (optionally only
those with at most ``bound`` non-default answers), replaying prefixes on a freshly built
system each time.  A replayed choice point whose menu differs from the recorded one is a hard
error (nondeterminism leaked into the harness).
"""

from __future__ import annotations

from dataclasses import dataclass, field
from typing import Any, Callable, Iterator


class HarnessError(RuntimeError):
    """The verification machinery itself is broken (not a property violation)."""


@dataclass
class Point:
    kind: str          # 'accept', 'choice', 'uniform', 'normal', 'user', ...
    n: int             # number of offered answers
    idx: int           # answer taken
    weight: float      # probability of that answer under the real generator's law
    label: Any = None  # human-readable description of the answer
    info: Any = None   # e.g. the captured threshold
    seg: int = 0       # segment (trial) number


class Chooser:
    """Replays ``prefix`` then answers 0 everywhere; records the trace."""

    def __init__(self, prefix=(), expect=None):
        self.prefix = list(prefix)
        self.expect = expect  # list of (kind, n) recorded when the prefix was generated
        self.trace: list[Point] = []
        self.seg = 0
        self.notes: list[Any] = []

    def mark(self) -> None:
        """Start a new segment (e.g. one per trial move)."""
        self.seg += 1

    def pick(self, kind: str, n: int, weights=None, labels=None, info=None) -> int:
        if n <= 0:
            raise HarnessError(f"empty menu at choice point {len(self.trace)} ({kind})")
        i = len(self.trace)
        if i < len(self.prefix):
            idx = self.prefix[i]
            if self.expect is not None and i < len(self.expect):
                ek, en = self.expect[i]
                if ek != kind or en != n:
                    raise HarnessError(
                        f"nondeterminism: choice point {i} was ({ek},{en}) when recorded, "
                        f"is ({kind},{n}) on replay"
                    )
            if not 0 <= idx < n:
                raise HarnessError(f"replayed index {idx} out of range {n} at point {i}")
        else:
            idx = 0
        w = 1.0 / n if weights is None else float(weights[idx])
        lab = None if labels is None else labels[idx]
        self.trace.append(Point(kind, n, idx, w, lab, info, self.seg))
        return idx

    @property
    def choices(self) -> list[int]:
        return [p.idx for p in self.trace]

    @property
    def probability(self) -> float:
        p = 1.0
        for t in self.trace:
            p *= t.weight
        return p

    def segments(self) -> dict[int, tuple]:
        """Trace grouped by segment: seg -> tuple of (kind, n, idx)."""
        out: dict[int, list] = {}
        for p in self.trace:
            out.setdefault(p.seg, []).append((p.kind, p.n, p.idx))
        return {k: tuple(v) for k, v in out.items()}

    def describe(self) -> list:
        return [
            {"kind": p.kind, "n": p.n, "idx": p.idx, "label": _js(p.label), "info": _js(p.info), "seg": p.seg}
            for p in self.trace
        ]


def _js(x):
    import numpy as np

    if x is None or isinstance(x, (str, bool, int)):
        return x
    if isinstance(x, float):
        return x if x == x and abs(x) != float("inf") else repr(x)
    if isinstance(x, np.generic):
        return _js(x.item())
    if isinstance(x, np.ndarray):
        return _js(x.tolist())
    if isinstance(x, (list, tuple)):
        return [_js(v) for v in x]
    if isinstance(x, dict):
        return {str(k): _js(v) for k, v in x.items()}
    return repr(x)


js = _js


@dataclass
class Stats:
    executions: int = 0
    points: int = 0
    max_depth: int = 0
    mass: float = 0.0
    capped: bool = False
    bound_completed: int | None = None


def explore(
    run: Callable[[Chooser], Any],
    bound: int | None = None,
    max_executions: int | None = None,
    stats: Stats | None = None,
    root_prefix=(),
) -> Iterator[tuple[Chooser, Any]]:
    """Enumerate all executions of ``run`` (depth first, prefix replay).

    ``bound``: maximal number of non-default (index != 0) answers per execution.
    Yields ``(chooser, result)`` for every execution.
    """
    st = stats if stats is not None else Stats()
    stack: list[tuple[list[int], list | None]] = [(list(root_prefix), None)]
    base = len(root_prefix)
    while stack:
        if max_executions is not None and st.executions >= max_executions:
            st.capped = True
            return
        prefix, expect = stack.pop()
        ch = Chooser(prefix, expect)
        res = run(ch)
        if len(ch.trace) < len(prefix):
            raise HarnessError(
                f"nondeterminism: execution ended after {len(ch.trace)} points, prefix has {len(prefix)}"
            )
        st.executions += 1
        # new edges of the choice tree contributed by this execution
        st.points += len(ch.trace) - len(prefix) + (1 if len(prefix) > base else 0)
        st.max_depth = max(st.max_depth, len(ch.trace))
        st.mass += ch.probability
        yield ch, res
        sig = [(p.kind, p.n) for p in ch.trace]
        idxs = ch.choices
        start = max(len(prefix), base)
        dev = sum(1 for v in idxs[:start] if v != 0)
        # push in reverse so that the lexicographically smallest alternative is explored first
        pending = []
        for i in range(start, len(ch.trace)):
            if bound is not None and dev + 1 > bound:
                break  # all later alternatives would also exceed (later idx are 0 here)
            for alt in range(1, ch.trace[i].n):
                pending.append((idxs[:i] + [alt], sig[: i + 1]))
        stack.extend(reversed(pending))
    if bound is not None:
        st.bound_completed = bound


def plan_depth(make_run, depth: int, cap: int = 150_000, floor: int = 2) -> tuple[int, int]:
    """Choose the deepest history length <= ``depth`` whose exhaustive exploration is estimated to
    stay below ``cap`` executions.  The estimate is E1**d with E1 the exact number of one-trial
    executions from the initial state.  Returns (depth_to_use, E1).  Every exploration that is
    then run is complete for the depth used; nothing is sampled."""
    st = Stats()
    for _ in explore(make_run(1), stats=st):
        pass
    e1 = max(st.executions, 1)
    d = depth
    while d > floor and e1**d > cap:
        d -= 1
    return d, e1
