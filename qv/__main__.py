import sys

from qv.runner import main

sys.exit(main())
