"""Crash-point file proxy: forwards to a real file, logs every operation and records what an
independent reader sees on disk after each one."""

from __future__ import annotations

import os
import shutil
import tempfile


def scratch_dir() -> str:
    base = "/dev/shm" if os.path.isdir("/dev/shm") and os.access("/dev/shm", os.W_OK) else tempfile.gettempdir()
    return tempfile.mkdtemp(prefix="qv-c16-", dir=base)


class OpLog:
    """Shared across the proxies of one simulation: global order of operations."""

    def __init__(self):
        self.ops = []  # (file_tag, opname, disk_bytes_after)
        self.marks = []  # (index_in_ops, tag, info): observer call completed

    def mark(self, tag, info=None):
        self.marks.append((len(self.ops), tag, info))


class CrashFile:
    """Text-mode file proxy.  Every forwarded operation is a potential crash point."""

    def __init__(self, path, mode, oplog: OpLog, tag: str, encoding="utf-8"):
        self._path = path
        self._f = open(path, mode, encoding=encoding)  # noqa: SIM115
        self._log = oplog
        self._tag = tag
        self.mode = mode
        self.name = path

    def _snap(self, op):
        with open(self._path, "rb") as r:
            self._log.ops.append((self._tag, op, r.read()))

    def write(self, s):
        n = self._f.write(s)
        self._snap("write")
        return n

    def flush(self):
        self._f.flush()
        self._snap("flush")

    def seek(self, *a):
        r = self._f.seek(*a)
        self._snap("seek")
        return r

    def truncate(self, *a):
        r = self._f.truncate(*a)
        self._snap("truncate")
        return r

    def close(self):
        if not self._f.closed:
            self._f.close()
            self._snap("close")

    def tell(self):
        return self._f.tell()

    def seekable(self):
        return True

    def writable(self):
        return True

    def readable(self):
        return False

    def isatty(self):
        return False

    def fileno(self):
        return self._f.fileno()

    @property
    def closed(self):
        return self._f.closed

    def __enter__(self):
        return self

    def __exit__(self, *a):
        self.close()


def torn_states(before: bytes, after: bytes):
    """Additional crash states while ``after`` was being made visible: if it extends ``before``,
    every prefix cut at a line boundary and one cut in the middle of every line."""
    if not after.startswith(before) or len(after) == len(before):
        return []
    tail = after[len(before) :]
    cuts = set()
    pos = 0
    for line in tail.splitlines(keepends=True):
        if len(line) > 1:
            cuts.add(pos + len(line) // 2)
        pos += len(line)
        cuts.add(pos)
    cuts.discard(len(tail))
    cuts.discard(0)
    return [before + tail[:c] for c in sorted(cuts)]


def cleanup(d):
    shutil.rmtree(d, ignore_errors=True)
