#!/bin/sh
# Offline setup: nothing to build; verify the interpreter and imports the checks need.
set -e
cd "$(dirname "$0")/.."
PYTHONPATH=/repo/src:$(pwd) PYTHONDONTWRITEBYTECODE=1 /venv/bin/python -c "import ase, numpy, scipy, networkx, quansino, qv.core, qv.rngx, qv.runner; print('qv setup ok', ase.__version__, numpy.__version__)"
mkdir -p evidence replays
