"""C18 - adaptive force-bias step length stays in range and shrinks with uncertainty.

Grid enumeration through the real ``AdaptiveForceBias.update_delta()``: (min,max) x reference
variance {1e-6 .. 1e6} x variance inputs (0, 1e-300 ... 1e300; scalar and per-coordinate arrays) x schemes x
update functions.  Variances are realised through committee arrays in ``calc.results`` where a
committee can realise them, and through a registered scheme function otherwise.
"""

from __future__ import annotations

import itertools
import warnings

import numpy as np
from ase.atoms import Atoms

from qv import calcs
from qv.core import js
from qv.runner import Acc, Report, pmap

PID = "C18"
RANGES = [(0.05, 0.15), (1e-3, 1.0), (0.1, 0.1), (0.0, 2.5)]
REFS = [1e-6, 0.1, 10.0, 400.0, 2500.0, 1e6]


def vgrid(ref):
    return [0.0, 1e-300, ref / 1e3, ref / 2, ref, 2 * ref, 10 * ref, 1e3 * ref, 1e300]


def make(lo, hi, ref, scheme, func):
    atoms = Atoms("CuArH", positions=[[1, 1.2, 0.9], [3.1, 2.2, 4.0], [4.4, 4.9, 2.1]], cell=[6] * 3, pbc=True)
    atoms.calc = calcs.PairSoft(centre=(3, 3, 3))
    from quansino.mc.fbmc import AdaptiveForceBias

    with warnings.catch_warnings():
        warnings.simplefilter("ignore")
        sim = AdaptiveForceBias(atoms, lo, hi, temperature=500.0, scheme=scheme, reference_variance=ref, update_function=func, seed=3)
    return sim, atoms


def committee_forces(v):
    """Committee of two realising std/mean|f| == v per coordinate (v < 1): f = m*(1 +- v)."""
    v = np.asarray(v, dtype=float)
    m = np.array([[1.3, -0.7, 2.1], [-0.4, 0.9, -1.6], [0.8, 1.1, -0.5]])  # non-zero mean force
    return np.stack([m * (1 + v), m * (1 - v)])


def task(arg):
    lo, hi = arg["range"]
    counters = {"evaluations": 0, "nontrivial": 0}
    viol, seen = [], {}

    def V(sig, what):
        seen[sig] = seen.get(sig, 0) + 1
        if seen[sig] <= 2:
            viol.append({"signature": sig, "what": what, "replay": {"check": PID, "func": "task", "arg": arg}})

    span = hi - lo
    ulp4 = 4 * np.spacing(max(abs(lo), abs(hi), 1e-300))
    for ref, func in itertools.product(REFS, ("tanh", "exp")):
        grid = vgrid(ref)
        for route in ("registered-scheme-scalar", "registered-scheme-array", "committee-forces", "committee-forces-tiny", "committee-forces-sign-disagreement", "committee-energy", "no-committee-data-forces", "no-committee-data-energy", "reference-changed-after-construction", "committee-data-appears-later-forces", "committee-data-appears-later-energy"):
            scheme = "energy" if route in ("committee-energy", "no-committee-data-energy", "registered-scheme-scalar", "committee-data-appears-later-energy") else "forces"
            if route == "reference-changed-after-construction":
                sim, atoms = make(lo, hi, ref * 7.0, "energy", func)
                sim.reference_variance = ref  # the public attribute is changed by the user
                sim.schemes["custom"] = lambda _a: ref
                sim.scheme = "custom"
                sim.update_delta()
                counters["evaluations"] += 1
                d = float(np.asarray(sim.delta))
                if abs(d - (lo + span / 2)) > 1e-12 * max(1.0, abs(d)):
                    V(f"C18/{func}/{route}/not-midpoint-at-reference", f"reference variance set to {ref} after construction: delta at that variance is {d!r}, midpoint {lo + span / 2}")
                del sim.schemes["custom"]
                sim.scheme = "energy"
                atoms.get_potential_energy()
                with warnings.catch_warnings():
                    warnings.simplefilter("ignore")
                    sim.update_delta()
                counters["evaluations"] += 1
                d = float(np.asarray(sim.delta))
                if abs(d - (lo + span / 2)) > 1e-12 * max(1.0, abs(d)):
                    V(f"C18/{func}/{route}/reference-variance-not-used", f"no committee data after changing the reference variance: delta {d!r}, midpoint {lo + span / 2}")
                sim.close()
                continue
            sim, atoms = make(lo, hi, ref, scheme, func)
            where0 = f"range=({lo},{hi}) ref={ref} update={func} route={route}"
            prev = None
            try:
                if route == "committee-forces-sign-disagreement":
                    m = np.array([[1.3, -0.7, 2.1], [-0.4, 0.9, -1.6], [0.8, 1.1, -0.5]]) * ref
                    lastv = None
                    for kk in (0.0, 0.5, 1.0, 2.0, 5.0, 20.0, 200.0):
                        comm = np.stack([m - kk * np.abs(m), m, m + kk * np.abs(m)])  # members disagree on the sign for kk > 1
                        atoms.get_potential_energy()
                        atoms.calc.results["forces_comm"] = comm
                        vr = np.std(comm, axis=0) / np.mean(np.abs(comm), axis=0)
                        sim.update_delta()
                        d_first = np.array(sim.delta, dtype=float, copy=True)
                        sim.update_delta()  # the same calculator results read a second time
                        counters["evaluations"] += 2
                        counters["nontrivial"] += 1
                        d = np.asarray(sim.delta, dtype=float)
                        if d.shape == d_first.shape and not np.array_equal(np.nan_to_num(d), np.nan_to_num(d_first)):
                            V(f"C18/{func}/{route}/same-inputs-different-delta", f"two consecutive adaptations on the same committee results give {js(d_first)} then {js(d)}; spread factor {kk}; {where0}")
                            break
                        if np.any(d < lo - ulp4) or np.any(d > hi + ulp4) or not np.all(np.isfinite(d)):
                            V(f"C18/{func}/{route}/out-of-range", f"delta {js(d)}; spread factor {kk}; {where0}")
                            break
                        if lastv is not None and np.all(vr >= lastv[0] - 1e-15) and np.any(d > lastv[1] + ulp4):
                            V(f"C18/{func}/{route}/increases-with-variance", f"committee spread grew (coefficient {js(lastv[0][0])} -> {js(vr[0])}) but delta rose {js(lastv[1][0])} -> {js(d[0])}; {where0}")
                            break
                        lastv = (vr, d)
                    continue
                if route.startswith("committee-data-appears-later"):
                    # the step length is adapted once before the calculator holds any committee
                    # results (as the first step of a run does), then the results appear
                    with warnings.catch_warnings():
                        warnings.simplefilter("ignore")
                        sim.update_delta()
                    counters["evaluations"] += 1
                    d = np.asarray(sim.delta, dtype=float)
                    if not np.allclose(d, lo + span / 2, rtol=1e-12, atol=1e-300):
                        V(f"C18/{func}/{route}/reference-variance-not-used", f"no results yet: delta {js(d)} is not the midpoint {lo + span / 2}; {where0}")
                    for v, want, name in ((0.0, hi, "not-max-at-zero-variance"), (1e3 * ref, lo, "not-min-at-large-variance")):
                        atoms.get_potential_energy()
                        if scheme == "forces":
                            if v >= 1:
                                continue
                            atoms.calc.results["forces_comm"] = committee_forces(np.full((3, 3), v))
                        else:
                            if not np.isfinite(v * 2 * len(atoms)):
                                continue
                            atoms.calc.results["energies"] = np.array([5.0 + v * len(atoms), 5.0 - v * len(atoms)])
                        with warnings.catch_warnings():
                            warnings.simplefilter("ignore")
                            sim.update_delta()
                        counters["evaluations"] += 1
                        counters["nontrivial"] += 1
                        d = np.asarray(sim.delta, dtype=float)
                        if not np.allclose(d, want, rtol=0, atol=1e-9 * max(span, 1e-300) + ulp4):
                            V(f"C18/{func}/{route}/{name}", f"committee results appeared after a first adaptation without any: variance {v} gives delta {js(d)}, expected {want}; {where0}")
                    continue
                if route.startswith("no-committee-data"):
                    # first adapt delta away from the midpoint, then lose the committee data
                    sim.schemes["custom"] = lambda _a: 0.0
                    keep = sim.scheme
                    sim.scheme = "custom"
                    sim.update_delta()
                    sim.scheme = keep
                    del sim.schemes["custom"]
                    atoms.get_potential_energy()
                    with warnings.catch_warnings():
                        warnings.simplefilter("ignore")
                        sim.update_delta()
                    counters["evaluations"] += 1
                    d = np.asarray(sim.delta, dtype=float)
                    if not np.allclose(d, lo + span / 2, rtol=1e-12, atol=1e-300):
                        V(f"C18/{func}/{route}/reference-variance-not-used", f"delta {js(d)} is not the midpoint {lo + span / 2}; {where0}")
                    for rep_i in (2, 3):  # the same situation at the following steps
                        with warnings.catch_warnings():
                            warnings.simplefilter("ignore")
                            sim.update_delta()
                        counters["evaluations"] += 1
                        d = np.asarray(sim.delta, dtype=float)
                        if np.any(d < lo - ulp4) or np.any(d > hi + ulp4) or not np.allclose(d, lo + span / 2, rtol=1e-12, atol=1e-300):
                            V(f"C18/{func}/{route}/repeated-adaptation-drifts", f"adaptation number {rep_i} without committee data: delta {js(d)}, midpoint {lo + span / 2}, range [{lo},{hi}]; {where0}")
                            break
                    continue
                for v in grid:
                    if route in ("committee-forces", "committee-forces-tiny"):
                        if not 0 <= v < 1:
                            continue
                        vv = np.full((3, 3), v)
                        vv[0, 0] = min(grid[1], 0.5)  # mixed values inside one array
                        vv[2, 1] = min(ref, 0.9) if ref < 1 else 0.5
                        atoms.get_potential_energy()
                        comm = committee_forces(vv) * (1e-6 if route == "committee-forces-tiny" else 1.0)  # an almost relaxed structure
                        atoms.calc.results["forces_comm"] = comm
                        expect_v = np.std(comm, axis=0) / np.mean(np.abs(comm), axis=0)  # realised value
                    elif route == "committee-energy":
                        if not np.isfinite(v * 2 * len(atoms)):
                            continue
                        atoms.get_potential_energy()
                        en = np.array([5.0 + v * len(atoms), 5.0 - v * len(atoms)])
                        atoms.calc.results["energies"] = en
                        expect_v = float(np.std(en) / len(atoms))  # realised value
                    elif route == "registered-scheme-scalar":
                        sim.schemes["custom"] = lambda _a, v=v: v
                        sim.scheme = "custom"
                        expect_v = v
                    else:
                        arr = np.array([[v, 0.0, ref], [ref / 2, v, 2 * ref], [1e3 * ref, v, v]])
                        sim.schemes["custom"] = lambda _a, arr=arr: arr
                        sim.scheme = "custom"
                        expect_v = arr
                    with warnings.catch_warnings():
                        warnings.simplefilter("ignore")
                        sim.update_delta()
                        d_first = np.array(sim.delta, dtype=float, copy=True)
                        sim.update_delta()  # same inputs again: same step length
                    counters["evaluations"] += 2
                    d = np.asarray(sim.delta, dtype=float)
                    if d.shape == d_first.shape and not np.array_equal(np.nan_to_num(d), np.nan_to_num(d_first)):
                        V(f"C18/{func}/{route}/same-inputs-different-delta", f"two consecutive adaptations with unchanged variance give {js(d_first)} then {js(d)}; v={v}; {where0}")
                        continue
                    ev = np.broadcast_to(np.asarray(expect_v, dtype=float), d.shape) if d.shape else np.asarray(expect_v, dtype=float)
                    where = f"v={js(expect_v) if np.ndim(expect_v) == 0 else 'array incl. ' + str(v)}; {where0}"
                    if 0 < v < 1e3 * ref:
                        counters["nontrivial"] += 1
                    if not np.all(np.isfinite(d)):
                        V(f"C18/{func}/{route}/non-finite-delta", f"delta {js(d)}; {where}")
                        continue
                    if np.any(d < lo - ulp4) or np.any(d > hi + ulp4):
                        V(f"C18/{func}/{route}/out-of-range", f"delta {js(d)} outside [{lo},{hi}]; {where}")
                        continue
                    dz = d[ev == 0] if d.shape else (d if ev == 0 else np.array([]))
                    if np.size(dz) and not np.allclose(dz, hi, rtol=0, atol=ulp4):
                        V(f"C18/{func}/{route}/not-max-at-zero-variance", f"delta {js(dz)} at zero variance, max_delta {hi}; {where}")
                    near = np.abs(ev - ref) <= 1e-6 * ref
                    dr = d[near] if d.shape else (d if near else np.array([]))
                    slack = span * (np.max(np.abs(ev[near] - ref), initial=0.0) if d.shape else abs(float(ev) - ref)) / ref
                    if np.size(dr) and not np.allclose(dr, lo + span / 2, rtol=1e-12, atol=slack + 1e-300):
                        V(f"C18/{func}/{route}/not-midpoint-at-reference", f"delta {js(dr)} at the reference variance, midpoint {lo + span / 2}; {where}")
                    dl = d[ev >= 1e3 * ref] if d.shape else (d if ev >= 1e3 * ref else np.array([]))
                    if np.size(dl) and np.any(dl - lo > 1e-9 * max(span, 1e-300) + ulp4):
                        V(f"C18/{func}/{route}/not-min-at-large-variance", f"delta {js(dl)} for variance >= 1000 x reference, min_delta {lo}; {where}")
                    # monotonicity along the sorted grid (same array positions that carry v)
                    cur = float(d[0, 0]) if d.shape and route == "registered-scheme-array" else (float(d) if not d.shape else float(d[1, 1]))
                    if prev is not None and cur > prev + ulp4:
                        V(f"C18/{func}/{route}/increases-with-variance", f"delta rose from {prev!r} to {cur!r} when the variance grew to {v}; {where0}")
                    prev = cur
            except Exception as e:  # noqa: BLE001
                V(f"C18/{func}/{route}/exception:{type(e).__name__}", f"{e}; {where0}"[:250])
            finally:
                sim.close()
    return {"counters": counters, "violations": viol, "samples": [{"range": [lo, hi], "refs": REFS, "grid_for_ref_0.1": vgrid(0.1)}]}


def run(tier, seed):
    rep = Report("exploration")
    acc = Acc()
    for r in pmap(__name__, "task", [{"range": r} for r in RANGES]):
        acc.add(r)
    rep.violations = acc.violations
    rep.coverage = {
        "evaluations": acc.n("evaluations"),
        "distinct_nontrivial": acc.n("nontrivial"),
        "rule": "one evaluation = one update_delta() call for one (min,max) x reference variance x update function x route (registered scheme scalar/array, committee forces incl. tiny and sign-disagreeing members, committee energies, no committee data, committee data appearing after a first adaptation without any, reference changed after construction) x variance value in {0,1e-300,ref/1e3,ref/2,ref,2ref,10ref,1e3ref,1e300}; non-trivial = 0 < v < 1000 ref",
        "exhaustive": True,
        "samples": acc.samples[:2],
    }
    rep.assumptions = ["a committee of two realises std/mean|f| < 1 per coordinate; larger force variances and all energy variances beyond what a committee can realise are injected through a scheme function registered in the simulation's own scheme table"]
    return rep


def replay(data):
    res = task(data["arg"])
    return {"signatures": sorted({v["signature"] for v in res["violations"]})}
