"""Drive a closed system trial by trial through the real run loop under a Chooser."""

from __future__ import annotations

import traceback
import warnings

from qv.core import Chooser
from qv.rngx import ChoiceRNG, Policy, install
from qv.snapshot import atoms_snapshot
from qv.systems import System, bookkeeping, build, flatten_moves


class Trial:
    __slots__ = ("name", "verdict", "pre", "post", "pre_book", "post_book", "thresholds", "error", "extra_pre", "extra_post", "seg", "_t0", "at_criteria")

    def __init__(self):
        self.error = None
        self.extra_pre = None
        self.extra_post = None
        self.verdict = "unfinished"
        self.post = None
        self.post_book = None
        self.thresholds = []
        self._t0 = 0
        self.at_criteria = None


def hook_checks(sysm: System, chooser: Chooser, max_attempts=2):
    """Make every elementary move's geometric check an explorer-controlled answer."""
    seen = set()
    for mv in sysm.entries.values():
        for leaf in flatten_moves(mv):
            if id(leaf) in seen or not hasattr(leaf, "check_move"):
                continue
            seen.add(id(leaf))
            leaf.max_attempts = max_attempts
            leaf.check_move = lambda *_a, **_k: chooser.pick("user", 2, None, ["check-ok", "check-veto"]) == 0


class RecordingCriteria:
    """User-level criteria (documented protocol only) delegating to the shipped one and
    recording the configuration presented to it."""

    def __init__(self, inner, sink):
        self.inner = inner
        self.sink = sink

    def evaluate(self, context, *a, **k):
        atoms = context.atoms
        self.sink.append(
            {
                "n": len(atoms),
                "positions": atoms.positions.copy(),
                "cell": atoms.cell.array.copy(),
                "momenta": atoms.get_momenta().copy() if atoms.has("momenta") else None,
                "particle_delta": getattr(context, "particle_delta", None),
                "nex": getattr(context, "number_of_exchange_particles", None),
                "numbers": atoms.numbers.copy(),
            }
        )
        r = self.inner.evaluate(context, *a, **k)
        self.sink[-1]["result"] = bool(r)
        return r

    def to_dict(self):
        return self.inner.to_dict()

    @classmethod
    def from_dict(cls, data):
        raise NotImplementedError


def execute(spec: dict, chooser: Chooser, depth: int, policy: Policy | None = None, probe=None, setup=None, before_trial=None, between_runs=None):
    """Build the system, run ``depth`` steps (one trial per cycle) and return (system, trials).

    ``probe(system)`` is evaluated before and after every trial.  Exceptions raised inside a
    trial are recorded in ``Trial.error`` and end the execution.
    The caller must ``system.close()``.
    """
    warnings.simplefilter("ignore")
    sysm = build(spec)
    rng = ChoiceRNG(chooser, policy)
    install(sysm.mc, rng)
    if spec.get("check"):
        hook_checks(sysm, chooser)
    if setup is not None:
        setup(sysm)
    mc = sysm.mc
    trials: list[Trial] = []
    cur = None
    sink: list = []
    for st in mc.moves.values():
        st.criteria = RecordingCriteria(st.criteria, sink)

    def finish():
        nonlocal cur
        if cur is None:
            return
        cur.verdict = mc.move_history[-1][1] if mc.move_history else "no-history"
        cur.post = atoms_snapshot(sysm.atoms)
        cur.post_book = bookkeeping(sysm)
        cur.thresholds = rng.thresholds[cur._t0 :]
        cur.at_criteria = sink[-1] if sink else None
        del sink[:]
        if probe is not None:
            cur.extra_post = probe(sysm)
        cur = None

    _T = Trial

    def steps():
        """One run(depth), or two consecutive runs with a user action in between."""
        if between_runs is None:
            yield from mc.irun(depth)
            return
        k, action = between_runs
        yield from mc.irun(k)
        action(sysm)
        yield from mc.irun(depth - k)

    try:
        for step in steps():
            chooser.mark()
            for name in step:
                finish()
                del sink[:]
                cur = _T()
                cur.name = str(name)
                cur.seg = chooser.seg
                cur._t0 = len(rng.thresholds)
                if before_trial is not None:
                    before_trial(sysm, len(trials), sink)
                cur.pre = atoms_snapshot(sysm.atoms)
                cur.pre_book = bookkeeping(sysm)
                if probe is not None:
                    cur.extra_pre = probe(sysm)
                trials.append(cur)
            finish()
    except Exception as e:  # noqa: BLE001
        from qv.core import HarnessError

        if isinstance(e, HarnessError):
            raise
        tb = traceback.extract_tb(e.__traceback__)
        where = ""
        for fr in reversed(tb):
            if "/quansino/" in fr.filename or "/ase/" in fr.filename:
                where = f"{fr.filename.split('/quansino/')[-1] if '/quansino/' in fr.filename else 'ase/' + fr.filename.split('/ase/')[-1]}:{fr.name}"
                break
        qwhere = ""
        for fr in reversed(tb):
            if "/quansino/" in fr.filename:
                qwhere = f"{fr.filename.split('/quansino/')[-1]}:{fr.name}"
                break
        err = {"type": type(e).__name__, "msg": str(e)[:200], "where": where, "qwhere": qwhere}
        if cur is not None:
            cur.at_criteria = sink[-1] if sink else None
            cur.error = err
            cur.verdict = "error"
            try:
                cur.post = atoms_snapshot(sysm.atoms)
                cur.post_book = bookkeeping(sysm)
            except Exception:  # noqa: BLE001
                pass
            cur = None
        else:
            t = _T()
            t.name = "<run-loop>"
            t.error = err
            t.verdict = "error"
            t.pre = t.post = None
            t.pre_book = None
            t.seg = chooser.seg
            trials.append(t)
    sysm.rng = rng
    return sysm, trials
