"""Bitwise snapshots of atoms and generic snapshots of simulation objects."""

from __future__ import annotations

import hashlib

import numpy as np
from ase.atoms import Atoms


def arr_key(a) -> tuple:
    a = np.ascontiguousarray(a)
    return (str(a.dtype), a.shape, a.tobytes())


def constraint_key(c) -> tuple:
    name = type(c).__name__
    d = {}
    try:
        d = c.todict().get("kwargs", {})
    except Exception:  # noqa: BLE001
        pass
    items = []
    for k in sorted(d):
        v = d[k]
        if isinstance(v, (list, tuple, np.ndarray)):
            items.append((k, tuple(np.asarray(v).ravel().tolist())))
        else:
            items.append((k, repr(v)))
    return (name, tuple(items))


def atoms_snapshot(atoms: Atoms, with_constraints=True) -> dict:
    """Everything observable on an Atoms object, bitwise."""
    arrays = {k: arr_key(v) for k, v in sorted(atoms.arrays.items())}
    # an absent momenta array is, through every ASE accessor, the same as zero momenta
    arrays.setdefault("momenta", arr_key(np.zeros((len(atoms), 3))))
    snap = {
        "n": len(atoms),
        "arrays": arrays,
        "cell": arr_key(np.asarray(atoms.cell.array)),
        "pbc": tuple(bool(x) for x in atoms.pbc),
    }
    if with_constraints:
        snap["constraints"] = tuple(constraint_key(c) for c in atoms.constraints)
    return snap


def atoms_diff(a: dict, b: dict) -> list[str]:
    """Names of the components in which two atoms snapshots differ."""
    out = []
    if a["n"] != b["n"]:
        out.append("atom-count")
    ka, kb = set(a["arrays"]), set(b["arrays"])
    for k in sorted(ka ^ kb):
        out.append(f"array-set:{k}")
    for k in sorted(ka & kb):
        x, y = a["arrays"][k], b["arrays"][k]
        if x != y:
            if x[0] != y[0]:
                out.append(f"dtype:{k}")
            elif x[1] != y[1]:
                out.append(f"shape:{k}")
            else:
                out.append(f"values:{k}")
    if list(a["arrays"]) != list(b["arrays"]):
        pass  # dict order of arrays is not observable through the ASE API
    if a["cell"] != b["cell"]:
        out.append("cell")
    if a["pbc"] != b["pbc"]:
        out.append("pbc")
    if "constraints" in a and "constraints" in b and a["constraints"] != b["constraints"]:
        out.append("constraints")
    return out


def digest(obj) -> str:
    h = hashlib.sha1()
    _feed(h, obj)
    return h.hexdigest()[:16]


def _feed(h, o):
    if isinstance(o, dict):
        h.update(b"{")
        for k in sorted(o, key=repr):
            _feed(h, k)
            _feed(h, o[k])
        h.update(b"}")
    elif isinstance(o, (list, tuple)):
        h.update(b"[")
        for v in o:
            _feed(h, v)
        h.update(b"]")
    elif isinstance(o, bytes):
        h.update(o)
    elif isinstance(o, np.ndarray):
        h.update(str(o.dtype).encode() + str(o.shape).encode() + np.ascontiguousarray(o).tobytes())
    else:
        h.update(repr(o).encode())


# ------------------------------------------------------------------ generic object snapshots
_SKIP_TYPES = ()


def _attr_names(o):
    names = []
    for klass in type(o).__mro__:
        sl = klass.__dict__.get("__slots__", ())
        if isinstance(sl, str):
            sl = (sl,)
        for s in sl:
            if s not in ("__weakref__", "__dict__") and s not in names:
                names.append(s)
    d = getattr(o, "__dict__", None)
    if isinstance(d, dict):
        for k in d:
            if k not in names:
                names.append(k)
    return names


def obj_snapshot(o, deny=(), _depth=0, _seen=None):
    """Canonical nested structure of the *data* attributes of ``o`` (callables, generators and
    calculators are not data)."""
    if _seen is None:
        _seen = set()
    if o is None or isinstance(o, (bool, int, str)):
        return o
    if isinstance(o, float):
        return ("f", o.hex() if o == o else "nan")
    if isinstance(o, np.generic):
        return obj_snapshot(o.item(), deny, _depth, _seen)
    if isinstance(o, np.ndarray):
        return ("arr",) + arr_key(o)
    if isinstance(o, Atoms):
        return ("atoms", atoms_snapshot(o, with_constraints=True))
    if isinstance(o, (list, tuple)):
        return ("seq", tuple(obj_snapshot(v, deny, _depth + 1, _seen) for v in o))
    if isinstance(o, dict):
        return ("dict", tuple((repr(k), obj_snapshot(v, deny, _depth + 1, _seen)) for k, v in sorted(o.items(), key=lambda kv: repr(kv[0]))))
    if callable(o) and not hasattr(o, "to_dict"):
        return ("callable", getattr(o, "__qualname__", type(o).__name__))
    if hasattr(o, "array") and hasattr(o, "volume"):  # ase Cell
        return ("cell", arr_key(np.asarray(o.array)))
    if id(o) in _seen or _depth > 8:
        return ("ref", type(o).__name__)
    tn = type(o).__name__
    if tn in ("Generator", "ChoiceRNG", "ScriptedRNG", "RecordingRNG", "weakproxy", "weakcallableproxy"):
        return ("skipped", tn)
    if hasattr(o, "calculate") and hasattr(o, "results") and hasattr(o, "get_property"):
        return ("calculator", tn)
    _seen = _seen | {id(o)}
    out = []
    for name in _attr_names(o):
        if name in deny:
            continue
        try:
            v = getattr(o, name)
        except AttributeError:
            out.append((name, ("unset",)))
            continue
        out.append((name, obj_snapshot(v, deny, _depth + 1, _seen)))
    return ("obj", tn, tuple(out))
