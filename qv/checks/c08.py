"""C08 - every shipped component survives serialization with its full configuration.

Process schedule: for every public module of the package (thorough: also ordered pairs through
the sub-packages) a FRESH interpreter imports that module first, then the rest of the package,
then round-trips (to_dict -> JSON -> registered name -> from_dict -> to_dict) every concrete
serializable class found by introspection with every constructor parameter non-default (one at
a time and all together), nested composites, and every Monte Carlo driver with all settings
non-default through to_dict and through the restart file.  See qv/c08_worker.py.
"""

from __future__ import annotations

import json
import os
import pkgutil
import subprocess
import sys

from qv.runner import Acc, Report, pmap

PID = "C08"


def module_names():
    import quansino

    names = ["quansino"]
    for mi in pkgutil.walk_packages(quansino.__path__, "quansino."):
        names.append(mi.name)
    return sorted(names)


def task(firsts):
    env = dict(os.environ)
    env["PYTHONWARNINGS"] = "ignore"
    extra = []
    if isinstance(firsts, dict):  # writer / reader modes
        extra = firsts["opts"]
        firsts = firsts["firsts"]
    p = subprocess.run([sys.executable, "-m", "qv.c08_worker", *firsts, *extra], capture_output=True, text=True, env=env, timeout=600)
    line = p.stdout.strip().splitlines()[-1] if p.stdout.strip() else ""
    try:
        out = json.loads(line)
    except Exception:  # noqa: BLE001
        return {"violations": [{"signature": "C08/worker/crashed", "what": f"first import {firsts}: exit {p.returncode}: {p.stderr[-400:]}", "replay": {"check": PID, "func": "task", "arg": firsts}}], "counters": {"interpreters": 1}}
    viol = []
    rep = {"check": PID, "func": "task", "arg": firsts}
    for ie in out["import_errors"]:
        kind = "circular-import" if ie.get("circular") else "import-error"
        viol.append({"signature": f"C08/import-first/{kind}/{ie['module']}", "what": f"fresh interpreter, importing {firsts} first: import of {ie['module']} fails: {ie['error']}", "replay": rep})
    for pr in out["problems"]:
        viol.append({"signature": pr["signature"], "what": f"{pr['what']} (first import {firsts})", "replay": rep})
    return {
        "violations": viol,
        "counters": {"interpreters": 1, "roundtrips": out["roundtrips"], "params_checked": out["params_checked"], "failed_first_imports": 1 if out["import_errors"] else 0},
        "sets": {"classes": out["classes"], "uncovered": out["uncovered_params"], "modules": [firsts[0]]},
        "maxima": {"classes": len(out["classes"])},
    }


def run(tier, seed):
    rep = Report("exploration")
    acc = Acc()
    mods = module_names()
    jobs = [[m] for m in mods]
    if tier == "thorough":
        pk = [m for m in mods if m.count(".") <= 1]
        jobs += [[a, b] for a in pk for b in pk if a != b]
    for r in pmap(__name__, "task", jobs):
        acc.add(r)
    # partial imports: a writer with the whole package imported dumps every serialized object;
    # readers import one module + the sub-package defining the family, then rebuild by name
    import tempfile

    fd, path = tempfile.mkstemp(prefix="qv-c08-", suffix=".json")
    os.close(fd)
    try:
        w = task({"firsts": ["quansino.mc"], "opts": ["--write", path]})
        families = ["operations", "integrators", "moves", "utils", "mc"]
        tops = ["quansino", "quansino.registry", "quansino.protocols", "quansino.io", "quansino.utils", "quansino.operations", "quansino.integrators", "quansino.moves"]
        firsts_r = tops if tier == "quick" else mods
        rjobs = [{"firsts": [m], "opts": ["--read", path, "--family", f]} for f in families for m in firsts_r]
        racc = Acc()
        for r in pmap(__name__, "task", rjobs):
            racc.add(r)
        acc.violations.extend(racc.violations)
        acc.counters["partial_import_rebuilds"] = racc.n("roundtrips")
        acc.counters["partial_import_interpreters"] = racc.n("interpreters")
    finally:
        os.unlink(path)
    # collapse: one violation per signature is enough (the same defect shows in every interpreter)
    rep.violations = acc.violations
    rep.coverage = {
        "evaluations": acc.n("roundtrips"),
        "distinct_nontrivial": acc.n("params_checked"),
        "rule": "one evaluation = one to_dict -> JSON -> registry -> from_dict -> to_dict round trip of one concrete class (found by pkgutil/inspect) in one fresh interpreter; distinct_nontrivial counts (attribute, object) comparisons made on rebuilt objects whose parameters were set to non-default values",
        "fresh_interpreters": acc.n("interpreters"),
        "first_import_schedules": len(jobs),
        "failed_first_imports": acc.n("failed_first_imports"),
        "partial_import_rebuilds": acc.n("partial_import_rebuilds"),
        "partial_import_interpreters": acc.n("partial_import_interpreters"),
        "modules": len(mods),
        "classes_found": sorted(c.split(".")[-1] for c in acc.sets.get("classes", ())),
        "parameters_without_alphabet_entry": sorted(acc.sets.get("uncovered", ())),
        "exhaustive": True,
        "samples": [{"first_import": "quansino.moves.displacement", "then": "every other module, then the round-trip suite"}, {"class": "CellMove", "non_default": {"operation": "ShapeDeformation(0.07, mask=<non-trivial>)", "scale_atoms": False, "apply_constraints": False, "max_attempts": 7}}],
    }
    rep.assumptions = ["concrete = has to_dict and from_dict, is not an ABC/protocol, is not named Base*, and does not merely inherit its protocol method from a Base* class", "callables and one-shot/transient fields are excepted (to_displace_labels, displaced_labels, to_add_atoms, to_delete_label, context, unique_labels)", "ForceBias drivers have no from_dict and are outside this statement (see C07)"]
    return rep


def replay(data):
    res = task(data["arg"])
    return {"signatures": sorted({v["signature"] for v in res["violations"]})}
