#!/venv/bin/python
"""Regenerate the table of seeded changes in DESIGN.md (between the SEEDED markers)."""
import glob, json, re
rows = []
for f in sorted(glob.glob('/verif/seeded/*/meta.json')):
    m = json.load(open(f)); sid = f.split('/')[-2]
    summ = re.sub(r'\s+', ' ', m.get('summary', ''))[:230]
    needs = re.sub(r'\s+', ' ', m.get('needs', ''))[:200]
    note = m.get('note', '')
    rows.append(f"| `{sid}` | {m.get('breaks_property')} | {summ} | {needs} | {', '.join(m['detected_by_quick_checks'])} | {note} |")
table = "| seeded change | breaks | what it is | what it needs to manifest | caught by (quick) | note |\n|---|---|---|---|---|---|\n" + "\n".join(rows)
p = '/verif/DESIGN.md'; s = open(p).read()
a, b = s.index('<!-- SEEDED-BEGIN -->'), s.index('<!-- SEEDED-END -->')
s = s[:a] + '<!-- SEEDED-BEGIN -->\n' + table + '\n' + s[b:]
open(p, 'w').write(s)
print(len(rows), 'rows')
