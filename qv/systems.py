"""Factories of closed systems (atoms + calculator + driver + move table) from JSON-able specs."""

from __future__ import annotations

import warnings

import numpy as np
from ase.atoms import Atoms
from ase.constraints import FixAtoms, FixCom

from qv import calcs

CELL = 6.0


def base_atoms(kind: str, jitter: float = 0.0) -> tuple[Atoms, dict]:
    """Return (atoms, info). info: default labels for label-bearing moves, exchange species."""
    if kind == "A3":
        pos = np.array([[1.0, 1.2, 0.9], [3.1, 2.2, 4.0], [4.4, 4.9, 2.1]])
        atoms = Atoms("Ar3", positions=pos, cell=[CELL] * 3, pbc=True)
        info = {"labels": [0, 1, 2], "exchange": Atoms("Ar", positions=[[0, 0, 0]])}
    elif kind == "Cu3":
        pos = np.array([[1.0, 1.2, 0.9], [3.1, 2.2, 2.0], [2.4, 3.9, 2.1]])
        atoms = Atoms("Cu3", positions=pos, cell=[CELL] * 3, pbc=True)
        info = {"labels": [0, 1, 2], "exchange": Atoms("Cu", positions=[[0, 0, 0]])}
    elif kind == "AK":  # two species, all exchangeable: a relocation composite can change the composition at constant count
        pos = np.array([[1.0, 1.2, 0.9], [3.1, 2.2, 4.0], [4.4, 4.9, 2.1]])
        atoms = Atoms("ArKrAr", positions=pos, cell=[CELL] * 3, pbc=True)
        info = {"labels": [0, 1, 2], "exchange": Atoms("Ar", positions=[[0, 0, 0]])}
    elif kind == "A2":
        pos = np.array([[1.0, 1.2, 0.9], [3.1, 2.2, 4.0]])
        atoms = Atoms("Ar2", positions=pos, cell=[CELL] * 3, pbc=True)
        info = {"labels": [0, 1], "exchange": Atoms("Ar", positions=[[0, 0, 0]])}
    elif kind == "A1":
        atoms = Atoms("Ar", positions=[[1.0, 1.2, 0.9]], cell=[CELL] * 3, pbc=True)
        info = {"labels": [0], "exchange": Atoms("Ar", positions=[[0, 0, 0]])}
    elif kind == "A0":
        atoms = Atoms(cell=[CELL] * 3, pbc=True)
        info = {"labels": [], "exchange": Atoms("Ar", positions=[[0, 0, 0]])}
    elif kind == "M":  # framework atom + two diatomics, interleaved order
        pos = np.array(
            [[0.5, 0.5, 0.5], [2.0, 2.0, 2.0], [4.0, 3.5, 1.0], [2.0, 2.0, 2.74], [4.0, 3.5, 1.74]]
        )
        atoms = Atoms("CuHHHH", positions=pos, cell=[CELL] * 3, pbc=True)
        info = {"labels": [-1, 0, 1, 0, 1], "exchange": Atoms("H2", positions=[[0, 0, 0], [0, 0, 0.74]])}
    elif kind == "M1":  # framework atom + one diatomic
        pos = np.array([[0.5, 0.5, 0.5], [2.0, 2.0, 2.0], [2.0, 2.0, 2.74]])
        atoms = Atoms("CuHH", positions=pos, cell=[CELL] * 3, pbc=True)
        info = {"labels": [-1, 0, 0], "exchange": Atoms("H2", positions=[[0, 0, 0], [0, 0, 0.74]])}
    elif kind == "T3":  # triclinic cell
        pos = np.array([[1.0, 1.2, 0.9], [3.1, 2.2, 4.0], [4.4, 4.9, 2.1]])
        atoms = Atoms("Ar3", positions=pos, cell=[[6, 0, 0], [1.0, 5.5, 0], [0.5, 0.8, 6.2]], pbc=True)
        info = {"labels": [0, 1, 2], "exchange": Atoms("Ar", positions=[[0, 0, 0]])}
    else:
        raise ValueError(kind)
    if jitter:
        # deterministic, non-symmetric
        n = len(atoms)
        atoms.positions += jitter * np.sin(np.arange(3 * n).reshape(n, 3) * 1.7 + 0.3)
    return atoms, info


def decorate(atoms: Atoms, decos) -> None:
    n = len(atoms)
    for d in decos:
        if d == "tags":
            atoms.set_tags(np.arange(n) * 3 + 1)
        elif d == "momenta":
            atoms.set_momenta(0.1 * np.cos(np.arange(3 * n).reshape(n, 3) + 0.5))
        elif d == "charges":
            atoms.set_initial_charges(np.linspace(-1, 1, n) if n else [])
        elif d == "custom2d":
            atoms.set_array("custom2d", (np.arange(2 * n).reshape(n, 2) * 7 + 1).astype(np.int32))
        elif d == "masses":
            atoms.set_masses(atoms.get_masses() * (1 + 0.1 * np.arange(n)))
        elif d == "magmoms":
            atoms.set_initial_magnetic_moments(np.arange(n) * 0.5)
        elif d.startswith("fix:"):
            idx = [int(x) for x in d[4:].split(",")]
            atoms.set_constraint([*atoms.constraints, FixAtoms(indices=idx)])
        elif d == "strain":  # the user pre-strains the box
            atoms.set_cell(atoms.cell.array * 1.03, scale_atoms=True)
        elif d == "shift":  # the user moves the atoms
            atoms.positions = atoms.positions + 0.05 * np.cos(np.arange(3 * n).reshape(n, 3) * 0.9 + 0.2)
        elif d == "hookean":  # an energy-adjusting constraint: a stretched spring between atoms 0 and 1
            from ase.constraints import Hookean

            atoms.set_constraint([*atoms.constraints, Hookean(a1=0, a2=1, k=0.4, rt=0.8)])
        elif d == "fixcom":
            atoms.set_constraint([*atoms.constraints, FixCom()])
        else:
            raise ValueError(d)


CALCS = {
    "zero": lambda: calcs.Zero(),
    "harmonic": lambda: calcs.Harmonic(k=0.05, centre=(3.0, 3.0, 3.0)),
    "pairsoft": lambda: calcs.PairSoft(centre=(3.0, 3.0, 3.0)),
    "peratom": lambda: calcs.PerAtomState(centre=(3.0, 3.0, 3.0)),
    "pairspecies": lambda: calcs.PairSpecies(centre=(3.0, 3.0, 3.0)),
    "quartic": lambda: calcs.Quartic(a=0.02, b=0.002, centre=(3.0, 3.0, 3.0)),
}


def counting(factory):
    """Wrap a calculator factory so that instances count ``calculate`` calls in ``.evaluations``."""

    def make():
        c = factory()
        if hasattr(c, "evaluations"):
            return c
        base = type(c)

        class Counting(base):  # type: ignore[misc, valid-type]
            def calculate(self, *a, **k):
                self.evaluations = getattr(self, "evaluations", 0) + 1
                return base.calculate(self, *a, **k)

        Counting.__name__ = base.__name__
        c.__class__ = Counting
        c.evaluations = 0
        return c

    return make


def calc_factory(name):
    if name == "bare":
        return lambda: calcs.Bare(k=0.05)
    if name in ("lj", "emt"):
        return counting(_ase_factory(name))
    if name in CALCS:
        return CALCS[name]
    raise ValueError(name)


def _ase_factory(name):
    if name == "lj":
        from ase.calculators.lj import LennardJones

        return lambda: LennardJones(sigma=1.5, epsilon=0.01, rc=2.9, smooth=True)
    if name == "emt":
        from ase.calculators.emt import EMT

        return lambda: EMT()
    raise ValueError(name)


def make_move(key: str, labels, extra=None):
    """Build one table entry's move from its key.  Returns (move, leaf_label_moves)."""
    from quansino.integrators.displacement import Verlet
    from quansino.moves.cell import CellMove
    from quansino.moves.displacement import DisplacementMove, HamiltonianDisplacementMove
    from quansino.moves.exchange import ExchangeMove
    from quansino.operations.cell import AnisotropicDeformation, IsotropicDeformation, ShapeDeformation
    from quansino.operations.displacement import Ball, Box, Rotation, Sphere, Translation, TranslationRotation

    L = lambda: np.array(labels, dtype=int)  # noqa: E731
    if key.startswith("G[") and key.endswith("]"):  # plain CompositeMove of the listed members
        from quansino.moves.composite import CompositeMove

        parts = [make_move(k, labels) for k in key[2:-1].split(",")]
        return CompositeMove([p[0] for p in parts]), [m for p in parts for m in p[1]]
    if "+" in key:
        parts = [make_move(k, labels) for k in key.split("+")]
        mv = parts[0][0]
        for p in parts[1:]:
            mv = mv + p[0]
        return mv, [m for p in parts for m in p[1]]
    if "*" in key:
        k, n = key.split("*")
        base, leaves = make_move(k, labels)
        return base * int(n), leaves
    ops = {
        "ball": lambda: Ball(0.3),
        "box": lambda: Box(0.3),
        "sphere": lambda: Sphere(0.3),
        "trans": lambda: Translation(),
        "rot": lambda: Rotation(),
        "transrot": lambda: TranslationRotation(),
        "ballbox": lambda: Ball(0.2) + Box(0.1),
    }
    if key == "D_default":  # operations left to the move's own default
        m = DisplacementMove(L())
        return m, [m]
    if key == "E_default":
        m = ExchangeMove(L())
        return m, [m]
    if key == "C_default":
        return CellMove(), []
    if key == "H_default":
        return HamiltonianDisplacementMove(), []
    if key.startswith("D_"):
        m = DisplacementMove(L(), ops[key[2:]]())
        return m, [m]
    if key.startswith("E_"):
        m = ExchangeMove(L(), ops[key[2:]]())
        return m, [m]
    if key.startswith(("E0_", "E1_")):  # deletion-only / insertion-only exchange move
        m = ExchangeMove(L(), ops[key[3:]](), bias_towards_insert=float(key[1]))
        return m, [m]
    if key == "C_iso":
        return CellMove(IsotropicDeformation(0.05)), []
    if key == "C_aniso":
        return CellMove(AnisotropicDeformation(0.05)), []
    if key == "C_aniso_ns":
        return CellMove(AnisotropicDeformation(0.05), scale_atoms=False), []
    if key == "C_shape":
        return CellMove(ShapeDeformation(0.05)), []
    if key in ("C_aniso_m", "C_shape_m", "C_iso_m"):
        mask = np.array([[True, False, True], [False, True, True], [True, True, False]])
        cls = {"C_aniso_m": AnisotropicDeformation, "C_shape_m": ShapeDeformation, "C_iso_m": IsotropicDeformation}[key]
        return CellMove(cls(0.05, mask=mask)), []
    if key == "H_forced":  # momenta rescaled to the exact target temperature
        from functools import partial

        from quansino.utils.dynamics import maxwell_boltzmann_distribution

        return HamiltonianDisplacementMove(distribution=partial(maxwell_boltzmann_distribution, forced=True), operation=Verlet(dt=1.0, max_steps=2)), []
    if key == "H":
        return HamiltonianDisplacementMove(operation=Verlet(dt=1.0, max_steps=3)), []
    if key == "H1":
        return HamiltonianDisplacementMove(operation=Verlet(dt=2.0, max_steps=1)), []
    raise ValueError(key)


class System:
    def __init__(self, spec, mc, atoms, leaves, calc_factory, entries):
        self.spec = spec
        self.mc = mc
        self.atoms = atoms
        self.leaves = leaves  # label-bearing elementary moves
        self.calc_factory = calc_factory
        self.entries = entries  # name -> move object

    def close(self):
        try:
            self.mc.close()
        except Exception:  # noqa: BLE001
            pass


def flatten_moves(move):
    if hasattr(move, "moves"):
        out = []
        for m in move.moves:
            out.extend(flatten_moves(m))
        return out
    return [move]


def build(spec: dict) -> System:
    """spec keys: ens, atoms, decos, calc, table [[name, key, probability]...], labels (optional),
    T, P, mu, jitter, max_cycles, stress (isotension), crit (criteria override: 'gc')"""
    from quansino.mc.canonical import Canonical, HamiltonianCanonical
    from quansino.mc.criteria import (
        CanonicalCriteria,
        GrandCanonicalCriteria,
        HamiltonianCanonicalCriteria,
        IsobaricCriteria,
        IsotensionCriteria,
    )
    from quansino.mc.gcmc import GrandCanonical
    from quansino.mc.isobaric import Isobaric
    from quansino.mc.isotension import Isotension

    atoms, info = base_atoms(spec["atoms"], spec.get("jitter", 0.0))
    decorate(atoms, spec.get("decos", []))
    cf = calc_factory(spec.get("calc", "pairsoft"))
    atoms.calc = cf()
    labels = spec.get("labels", info["labels"])
    T = spec.get("T", 300.0)
    ens = spec["ens"]
    kw = dict(max_cycles=spec.get("max_cycles", 1), seed=spec.get("seed", 1))
    if spec.get("log"):
        import io

        kw["logfile"] = io.StringIO()
        kw["logging_interval"] = 1
    with warnings.catch_warnings():
        warnings.simplefilter("ignore")
        if ens == "Canonical":
            mc = Canonical(atoms, temperature=T, **kw)
        elif ens == "HamiltonianCanonical":
            mc = HamiltonianCanonical(atoms, temperature=T, **kw)
        elif ens == "Isobaric":
            mc = Isobaric(atoms, temperature=T, pressure=spec.get("P", 0.001), **kw)
        elif ens == "Isotension":
            st = spec.get("stress")
            skw = {} if st is None else {"external_stress": np.array(st, dtype=float)}  # default stress: argument left out
            mc = Isotension(atoms, temperature=T, pressure=spec.get("P", 0.001), **skw, **kw)
        elif ens == "GrandCanonical":
            nex = spec.get("nex")
            if nex is None:
                nex = len({l for l in labels if l >= 0})
            mc = GrandCanonical(
                atoms,
                exchange_atoms=info["exchange"].copy(),
                temperature=T,
                chemical_potential=spec.get("mu", -0.05),
                number_of_exchange_particles=nex,
                **kw,
            )
        else:
            raise ValueError(ens)
    crit_map = {
        "canonical": CanonicalCriteria,
        "hamiltonian": HamiltonianCanonicalCriteria,
        "isobaric": IsobaricCriteria,
        "isotension": IsotensionCriteria,
        "gc": GrandCanonicalCriteria,
    }
    leaves, entries = [], {}
    for ent in spec["table"]:
        name, key = ent[0], ent[1]
        prob = ent[2] if len(ent) > 2 else 1.0
        crit = ent[3] if len(ent) > 3 else None
        mv, lv = make_move(key, labels)
        leaves.extend(lv)
        entries[name] = mv
        criteria = crit_map[crit]() if crit else None
        if criteria is not None:
            mc.add_move(mv, criteria=criteria, name=name, probability=prob)
        else:
            _add_default(mc, mv, name, prob, key, crit_map)
    return System(spec, mc, atoms, leaves, cf, entries)


def _add_default(mc, mv, name, prob, key, crit_map):
    """Composite moves have no default criteria: choose the natural one for the ensemble."""
    try:
        mc.add_move(mv, name=name, probability=prob)
        return
    except ValueError:
        pass
    ens = type(mc).__name__
    if "E_" in key or "E0_" in key or "E1_" in key:
        c = crit_map["gc"]()
    elif "C_" in key:
        c = crit_map["isotension"]() if ens == "Isotension" else crit_map["isobaric"]()
    elif key.startswith("H"):
        c = crit_map["hamiltonian"]()
    else:
        c = crit_map["canonical"]()
    mc.add_move(mv, criteria=c, name=name, probability=prob)


def bookkeeping(sysm: System) -> dict:
    """The trial bookkeeping the property C03/C05 names, read defensively."""
    ctx = sysm.mc.context
    out = {}
    for nm in ("_added_indices", "_deleted_indices"):
        v = getattr(ctx, nm, None)
        out[nm] = None if v is None else len(v)
    for nm in ("_added_atoms", "_deleted_atoms"):
        v = getattr(ctx, nm, None)
        out[nm] = None if v is None else len(v)
    out["particle_delta"] = getattr(ctx, "particle_delta", None)
    out["nex"] = getattr(ctx, "number_of_exchange_particles", None)
    lv = []
    seen = set()
    for m in sysm.leaves:
        if id(m) in seen:
            continue
        seen.add(id(m))
        lab = getattr(m, "labels", None)
        lv.append(
            {
                "labels": None if lab is None else tuple(np.asarray(lab).tolist()),
                "to_displace_labels": _plain(getattr(m, "to_displace_labels", None)),
                "to_add_atoms": None if getattr(m, "to_add_atoms", None) is None else "set",
                "to_delete_label": _plain(getattr(m, "to_delete_label", None)),
            }
        )
    out["moves"] = lv
    return out


def _plain(v):
    if v is None:
        return None
    try:
        return int(v)
    except Exception:  # noqa: BLE001
        return repr(v)
