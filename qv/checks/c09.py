"""C09 - move scheduling honours interval, probability and minimum count.

For every small move table (<= 3 moves; interval, weight, minimum count, cycles from small
alphabets) and every step number 0..6, every generator answer inside the real scheduling code
(reached through ``MonteCarlo.step()``) is enumerated, giving the exact probability of every
yielded name sequence; it is compared with a reference distribution computed by a boring model.
The over-commit refusal of ``add_move`` is enumerated over the same alphabet (also with the run
advanced before the last addition).  The shipped drivers are covered through ``irun`` with their
default moves re-configured after construction and after a rebuild from the dictionary.
"""

from __future__ import annotations

import itertools
import warnings

from ase.atoms import Atoms

from qv.core import Chooser, Stats, explore, js
from qv.rngx import ChoiceRNG, install
from qv.runner import Acc, Report, pmap

PID = "C09"
TOL = 1e-12


class PMove:
    """Bare protocol move: never succeeds (so no criteria is consulted)."""

    def __call__(self, context):
        return False

    def on_atoms_changed(self, added, removed):
        pass

    def on_cell_changed(self, cell):
        pass

    def to_dict(self):
        return {"name": "PMove"}

    @classmethod
    def from_dict(cls, data):
        return cls()


class PCrit:
    def evaluate(self, context):
        return True

    def to_dict(self):
        return {"name": "PCrit"}

    @classmethod
    def from_dict(cls, data):
        return cls()


NAMES = "abc"


def reference(table, cycles, step):
    """Exact distribution of name sequences.  table: list of (interval, weight, min_count)."""
    due = [i for i, (iv, w, m) in enumerate(table) if step % iv == 0]
    if not due:
        return {(): 1.0}
    forced = [i for i in due for _ in range(table[i][2])]
    wsum = sum(table[i][1] for i in due)
    dist: dict[tuple, float] = {}
    slots = list(range(cycles))
    perms = list(itertools.permutations(slots, len(forced)))
    for perm in perms:
        placed = dict(zip(perm, forced))
        free = [s for s in slots if s not in placed]
        for fill in itertools.product(due, repeat=len(free)):
            p = 1.0 / len(perms)
            for i in fill:
                p *= table[i][1] / wsum
            if p == 0.0:
                continue
            seq = [None] * cycles
            for s, i in placed.items():
                seq[s] = NAMES[i]
            for s, i in zip(free, fill):
                seq[s] = NAMES[i]
            key = tuple(seq)
            dist[key] = dist.get(key, 0.0) + p
    return dist


def valid(table, cycles, step):
    if sum(m for _, _, m in table) > cycles:
        return False  # add_move refuses such a table
    due = [i for i, (iv, w, m) in enumerate(table) if step % iv == 0]
    if due and sum(table[i][1] for i in due) <= 0:
        # weights all zero among the due moves: outside the stated precondition,
        # unless no free slot exists
        forced = sum(table[i][2] for i in due)
        return forced == cycles
    return True


def make_mc(table, cycles):
    from quansino.mc.core import MonteCarlo

    with warnings.catch_warnings():
        warnings.simplefilter("ignore")
        mc = MonteCarlo(Atoms(), max_cycles=cycles, seed=1)
        for i, (iv, w, m) in enumerate(table):
            mc.add_move(PMove(), criteria=PCrit(), name=NAMES[i], interval=iv, probability=float(w), minimum_count=m)
    return mc


def check_table(table, cycles, steps, viol, counters, sets, samples):
    if sum(m for _, _, m in table) > cycles:
        counters["skipped_outside_precondition"] += len(steps)
        return
    mc = make_mc(table, cycles)
    try:
        for step in steps:
            if not valid(table, cycles, step):
                counters["skipped_outside_precondition"] += 1
                continue
            mc.step_count = step

            def run(ch):
                install(mc, ChoiceRNG(ch))
                names = [str(n) for n in mc.step()]
                hist = [(str(n), v) for n, v in mc.move_history]
                return tuple(names), hist

            got: dict[tuple, float] = {}
            st = Stats()
            err = None
            try:
                for ch, (names, hist) in explore(run, stats=st):
                    got[names] = got.get(names, 0.0) + ch.probability
                    if [n for n, _ in hist] != list(names) or any(v is not None for _, v in hist):
                        err = ("history", f"move_history {hist} does not record the yielded names {names} as not attempted")
            except Exception as e:  # noqa: BLE001
                from qv.core import HarnessError

                if isinstance(e, HarnessError):
                    raise
                err = ("exception:" + type(e).__name__, f"scheduling raised {type(e).__name__}: {e}")
            counters["executions"] += st.executions
            counters["transitions"] += st.points
            counters["instances"] += 1
            ref = reference(table, cycles, step)
            nontrivial = len(ref) > 1
            if nontrivial:
                counters["nontrivial"] += 1
            sets["states"].add((tuple(table), cycles, step % 6 if False else step))
            rep = {"check": PID, "func": "task_replay", "arg": {"table": table, "cycles": cycles, "step": step}}
            desc = f"table {[dict(interval=a, weight=b, min=c) for a, b, c in table]} cycles={cycles} step={step}"
            if err is None:
                # the statement fixes how often each move is attempted in a step, not where in the
                # step the guaranteed attempts sit: compare the distributions of the multisets
                def collapse(d):
                    out = {}
                    for k, v in d.items():
                        kk = tuple(sorted(k))
                        out[kk] = out.get(kk, 0.0) + v
                    return out

                ref, got_seq, got = collapse(ref), got, collapse(got)
                keys = set(ref) | set(got)
                worst = max((abs(ref.get(k, 0.0) - got.get(k, 0.0)) for k in keys), default=0.0)
                if worst > TOL:
                    # classify the cause
                    k = max(keys, key=lambda k: abs(ref.get(k, 0.0) - got.get(k, 0.0)))
                    due = [NAMES[i] for i, (iv, w, m) in enumerate(table) if step % iv == 0]
                    if any(n not in due for s in got for n in s):
                        clause = "not-due-move-attempted"
                    elif any(len(s) != (cycles if due else 0) for s in got):
                        clause = "wrong-number-of-cycles"
                    elif any(s.count(NAMES[i]) < table[i][2] for s in got for i in range(len(table)) if NAMES[i] in due):
                        clause = "minimum-count-not-met"
                    elif any(NAMES[i] in due and table[i][1] == 0 and s.count(NAMES[i]) > table[i][2] for s in got for i in range(len(table))):
                        clause = "zero-weight-move-chosen-freely"
                    elif set(ref) != set(got):
                        clause = "support-differs"
                    else:
                        clause = "probabilities-differ"
                    err = (clause, f"sequence {k}: implementation {got.get(k, 0.0):.6g}, reference {ref.get(k, 0.0):.6g}")
            if err is not None:
                viol.append({"signature": f"C09/schedule/{err[0]}", "what": f"{err[1]} for {desc}", "replay": rep})
            elif len(samples) < 3 and nontrivial and len(table) > 1:
                samples.append({"table": table, "cycles": cycles, "step": step, "distribution_of_attempt_multisets": {"".join(k): round(v, 6) for k, v in sorted(got.items())}, "executions": st.executions})
    finally:
        mc.close()


def distribution(mc):
    def run(ch):
        install(mc, ChoiceRNG(ch))
        return tuple(str(n) for n in mc.step())

    got, st = {}, Stats()
    for ch, names in explore(run, stats=st):
        got[names] = got.get(names, 0.0) + ch.probability
    return got, st


def task_edits(arg):
    """The table is edited in place between steps (documented: probabilities may change
    dynamically): the next step must follow the edited table."""
    counters = {"executions": 0, "transitions": 0, "instances": 0, "nontrivial": 0, "skipped_outside_precondition": 0, "edits": 0}
    viol, seen = [], {}
    fields = {"interval": (1, 2, 3), "probability": (0, 1, 3), "minimum_count": (0, 1, 2)}
    for table, cycles in arg["items"]:
        table = [tuple(x) for x in table]
        if sum(m for _, _, m in table) > cycles or not valid(table, cycles, 0):
            continue
        mc = make_mc(table, cycles)
        try:
            mc.step_count = 0
            install(mc, ChoiceRNG(Chooser()))
            list(mc.step())  # one real step under the original table
            for mi in range(len(table)):
                for fi, (fname, vals) in enumerate(fields.items()):
                    for v in vals:
                        if v == table[mi][fi]:
                            continue
                        t2 = list(table)
                        row = list(t2[mi])
                        row[fi] = v
                        t2[mi] = tuple(row)
                        for step in (1, 6):
                            if not valid(t2, cycles, step):
                                continue
                            counters["edits"] += 1
                            stor = mc.moves[NAMES[mi]]
                            old = getattr(stor, fname)
                            setattr(stor, fname, float(v) if fname == "probability" else v)
                            mc.step_count = step
                            try:
                                got, st = distribution(mc)
                                err = None
                            except Exception as e:  # noqa: BLE001
                                from qv.core import HarnessError

                                if isinstance(e, HarnessError):
                                    raise
                                got, st, err = {}, Stats(), f"{type(e).__name__}: {e}"
                            setattr(stor, fname, old)
                            counters["executions"] += st.executions
                            counters["transitions"] += st.points
                            counters["instances"] += 1
                            ref = reference(t2, cycles, step)
                            if len(ref) > 1:
                                counters["nontrivial"] += 1
                            keys = set(ref) | set(got)
                            worst = max((abs(ref.get(k, 0.0) - got.get(k, 0.0)) for k in keys), default=0.0)
                            if err or worst > TOL:
                                sig = f"C09/schedule/table-edited-between-steps/{fname}/{'exception' if err else 'distribution-differs'}"
                                seen[sig] = seen.get(sig, 0) + 1
                                if seen[sig] <= 2:
                                    viol.append({"signature": sig, "what": f"table {table} cycles {cycles}: after one step, {fname} of move {NAMES[mi]} set to {v}; step {step}: {err or 'distribution differs from the reference for the edited table by %.3g' % worst}", "replay": {"check": PID, "func": "task_edits", "arg": {"items": [[table, cycles]]}}})
        finally:
            mc.close()
    counters["violating_instances"] = sum(seen.values())
    return {"counters": counters, "sets": {}, "violations": viol, "samples": []}


def reference_midstep(table, cycles, step, mi, new_w):
    """Distribution of name sequences when, after the first yielded name, the weight of move
    ``mi`` is set to ``new_w``: forced slots were fixed at the start of the step, the first free
    slot (if slot 0 is free) used the old weights, later free slots use the new ones."""
    due = [i for i, (iv, w, m) in enumerate(table) if step % iv == 0]
    if not due:
        return {(): 1.0}
    forced = [i for i in due for _ in range(table[i][2])]
    w_old = {i: table[i][1] for i in due}
    w_new = dict(w_old)
    if mi in w_new:
        w_new[mi] = new_w
    dist = {}
    slots = list(range(cycles))
    perms = list(itertools.permutations(slots, len(forced)))
    for perm in perms:
        placed = dict(zip(perm, forced))
        free = [s for s in slots if s not in placed]
        for fill in itertools.product(due, repeat=len(free)):
            p = 1.0 / len(perms)
            for s_, i in zip(free, fill):
                ws = w_old if s_ == 0 else w_new
                tot = sum(ws.values())
                p *= ws[i] / tot if tot > 0 else 0.0
            if p == 0.0:
                continue
            seq = [None] * cycles
            for s_, i in placed.items():
                seq[s_] = NAMES[i]
            for s_, i in zip(free, fill):
                seq[s_] = NAMES[i]
            dist[tuple(seq)] = dist.get(tuple(seq), 0.0) + p
    return dist


def task_midstep(arg):
    """The weights are re-read for every free slot (documented: probabilities may change between
    the moves of one step): edit a weight after the first yielded name."""
    counters = {"executions": 0, "transitions": 0, "instances": 0, "nontrivial": 0, "skipped_outside_precondition": 0, "midstep_edits": 0}
    viol, seen = [], {}
    for table, cycles in arg["items"]:
        table = [tuple(x) for x in table]
        if sum(m for _, _, m in table) > cycles or cycles < 2:
            continue
        for step in (0, 1):
            if not valid(table, cycles, step):
                continue
            for mi in range(len(table)):
                for new_w in (0, 1, 3):
                    if new_w == table[mi][1]:
                        continue
                    due = [i for i, (iv, w, m) in enumerate(table) if step % iv == 0]
                    if due and sum((new_w if i == mi else table[i][1]) for i in due) <= 0 and sum(table[i][2] for i in due) < cycles:
                        continue  # all due weights zero with a free slot left: outside the precondition
                    mc = make_mc(table, cycles)
                    mc.step_count = step

                    def run(ch, mc=mc):
                        stor = mc.moves[NAMES[mi]]
                        stor.probability = float(table[mi][1])
                        install(mc, ChoiceRNG(ch))
                        names = []
                        for k, n in enumerate(mc.step()):
                            names.append(str(n))
                            if k == 0:
                                stor.probability = float(new_w)
                        return tuple(names)

                    got, st = {}, Stats()
                    try:
                        for ch, names in explore(run, stats=st):
                            got[names] = got.get(names, 0.0) + ch.probability
                        err = None
                    except Exception as e:  # noqa: BLE001
                        from qv.core import HarnessError

                        if isinstance(e, HarnessError):
                            raise
                        err = f"{type(e).__name__}: {e}"
                    mc.close()
                    counters["executions"] += st.executions
                    counters["transitions"] += st.points
                    counters["instances"] += 1
                    counters["midstep_edits"] += 1
                    ref = reference_midstep(table, cycles, step, mi, new_w)
                    if len(ref) > 1:
                        counters["nontrivial"] += 1
                    keys = set(ref) | set(got)
                    worst = max((abs(ref.get(k, 0.0) - got.get(k, 0.0)) for k in keys), default=0.0)
                    if err or worst > TOL:
                        sig = f"C09/schedule/weight-edited-between-moves-of-one-step/{'exception' if err else 'distribution-differs'}"
                        seen[sig] = seen.get(sig, 0) + 1
                        if seen[sig] <= 2:
                            viol.append({"signature": sig, "what": f"table {table} cycles {cycles} step {step}: weight of {NAMES[mi]} set to {new_w} after the first move of the step: {err or 'distribution differs from the reference by %.3g' % worst}", "replay": {"check": PID, "func": "task_midstep", "arg": {"items": [[table, cycles]]}}})
    counters["violating_instances"] = sum(seen.values())
    return {"counters": counters, "sets": {}, "violations": viol, "samples": []}


def tables(n, alphabet):
    return [tuple(t) for t in itertools.product(alphabet, repeat=n)]


FULL = [(iv, w, m) for iv in (1, 2, 3) for w in (0, 1, 3) for m in (0, 1, 2)]
SMALL = [(iv, w, m) for iv in (1, 2) for w in (0, 1) for m in (0, 1)]
MID = [(iv, w, m) for iv in (1, 2, 3) for w in (0, 1, 3) for m in (0, 1)]


def task(arg):
    counters = {"executions": 0, "transitions": 0, "instances": 0, "nontrivial": 0, "skipped_outside_precondition": 0}
    sets = {"states": set()}
    viol, samples = [], []
    for table, cycles in arg["items"]:
        check_table([tuple(x) for x in table], cycles, arg["steps"], viol, counters, sets, samples)
    # keep at most a few violations per signature to bound the result size
    seen, kept = {}, []
    for v in viol:
        seen[v["signature"]] = seen.get(v["signature"], 0) + 1
        if seen[v["signature"]] <= 3:
            kept.append(v)
    counters["violating_instances"] = len(viol)
    return {"counters": counters, "sets": {"states": [repr(x) for x in sets["states"]]}, "violations": kept, "samples": samples}


def task_replay(arg):
    counters = {"executions": 0, "transitions": 0, "instances": 0, "nontrivial": 0, "skipped_outside_precondition": 0}
    viol, samples = [], []
    check_table([tuple(x) for x in arg["table"]], arg["cycles"], [arg["step"]], viol, counters, {"states": set()}, samples)
    return {"counters": counters, "violations": viol}


# ---------------------------------------------------------------- shipped drivers with their default moves
def _driver(kind):
    import numpy as np

    from qv import calcs
    from quansino.mc.canonical import Canonical
    from quansino.mc.gcmc import GrandCanonical
    from quansino.mc.isobaric import Isobaric
    from quansino.mc.isotension import Isotension
    from quansino.moves.cell import CellMove
    from quansino.moves.displacement import DisplacementMove
    from quansino.moves.exchange import ExchangeMove

    atoms = Atoms("Ar3", positions=[[1, 1.2, 0.9], [3.1, 2.2, 4.0], [4.4, 4.9, 2.1]], cell=[6.0] * 3, pbc=True)
    atoms.calc = calcs.Zero()
    lab = np.arange(3)
    with warnings.catch_warnings():
        warnings.simplefilter("ignore")
        if kind == "Canonical":
            mc = Canonical(atoms, temperature=300.0, max_cycles=2, seed=1, default_displacement_move=DisplacementMove(lab))
            mc.add_move(DisplacementMove(lab.copy()), name="second")
        elif kind == "Isobaric":
            mc = Isobaric(atoms, temperature=300.0, pressure=0.001, max_cycles=2, seed=1, default_displacement_move=DisplacementMove(lab), default_cell_move=CellMove())
        elif kind == "Isotension":
            mc = Isotension(atoms, temperature=300.0, pressure=0.001, max_cycles=2, seed=1, default_displacement_move=DisplacementMove(lab), default_cell_move=CellMove())
        else:
            mc = GrandCanonical(atoms, exchange_atoms=Atoms("Ar"), temperature=300.0, chemical_potential=-0.1, number_of_exchange_particles=3, max_cycles=2, seed=1, default_displacement_move=DisplacementMove(lab), default_exchange_move=ExchangeMove(lab.copy()))
    return mc


def task_drivers(arg):
    """The user changes interval / weight / minimum count of the DEFAULT moves of a shipped driver
    (or rebuilds the simulation from its dictionary) and runs: the schedule of every step, reached
    through ``irun`` (so that whatever a run does at its start is included), follows the table."""
    kind, rebuilt = arg["driver"], arg["rebuilt"]
    counters = {"executions": 0, "transitions": 0, "instances": 0, "nontrivial": 0, "skipped_outside_precondition": 0}
    viol, seen = [], {}
    alpha = [(1, 1.0, 0), (1, 0.0, 0), (1, 3.0, 1), (2, 1.0, 0), (1, 0.0, 1), (2, 0.5, 1)]
    for sa, sb in itertools.product(alpha, repeat=2):
        mc = _driver(kind)
        names = list(mc.moves)
        if len(names) != 2:
            mc.close()
            raise RuntimeError(f"harness expects two default moves, got {names}")
        for nm, (iv, w, m) in zip(names, (sa, sb)):
            st = mc.moves[nm]
            st.interval, st.probability, st.minimum_count = iv, w, m
        if rebuilt:
            old = mc
            with warnings.catch_warnings():
                warnings.simplefilter("ignore")
                mc = type(old).from_dict(old.to_dict())
            mc.atoms.calc = type(old.atoms.calc)()
            old.close()
            if list(mc.moves) != names:
                sig = f"C09/driver/{kind}/rebuilt/table-names-or-order-differ"
                if sig not in seen:
                    seen[sig] = 1
                    viol.append({"signature": sig, "what": f"rebuilt table {list(mc.moves)} vs {names}", "replay": {"check": PID, "func": "task_drivers", "arg": arg}})
                mc.close()
                continue
        for st in mc.moves.values():  # scheduling only: the moves themselves do nothing
            st.move, st.criteria = PMove(), PCrit()
        table = [sa, sb]
        try:
            for step in (0, 1, 2):
                if not valid(table, 2, step):
                    counters["skipped_outside_precondition"] += 1
                    continue

                def run(ch):
                    mc.step_count = step
                    install(mc, ChoiceRNG(ch))
                    out = []
                    for s in mc.irun(1):
                        out.extend(str(n) for n in s)
                    return tuple(sorted(out))

                got, st_ = {}, Stats()
                err = None
                try:
                    for ch, key in explore(run, stats=st_):
                        got[key] = got.get(key, 0.0) + ch.probability
                except Exception as e:  # noqa: BLE001
                    from qv.core import HarnessError

                    if isinstance(e, HarnessError):
                        raise
                    err = f"scheduling raised {type(e).__name__}: {e}"
                counters["executions"] += st_.executions
                counters["transitions"] += st_.points
                counters["instances"] += 1
                ref = {}
                for k, v in reference(table, 2, step).items():
                    kk = tuple(sorted(names[NAMES.index(x)] for x in k))
                    ref[kk] = ref.get(kk, 0.0) + v
                if len(ref) > 1:
                    counters["nontrivial"] += 1
                worst = max((abs(ref.get(k, 0.0) - got.get(k, 0.0)) for k in set(ref) | set(got)), default=0.0)
                if err or worst > TOL:
                    sig = f"C09/driver/{kind}/{'rebuilt-from-dictionary' if rebuilt else 'settings-changed-after-construction'}/{'exception' if err else 'distribution-differs'}"
                    seen[sig] = seen.get(sig, 0) + 1
                    if seen[sig] <= 2:
                        viol.append({"signature": sig, "what": f"default moves {names} set to (interval, weight, minimum count) {table}, step {step}: {err or 'attempt multisets %s, reference %s' % (js({' '.join(k): round(v, 6) for k, v in got.items()}), js({' '.join(k): round(v, 6) for k, v in ref.items()}))}", "replay": {"check": PID, "func": "task_drivers", "arg": arg}})
        finally:
            mc.close()
    return {"counters": counters, "violations": viol, "samples": []}


def refusal(viol):
    """add_move must refuse exactly the additions that over-commit the cycles."""
    from quansino.mc.core import MonteCarlo

    n = 0
    for cycles, ivs, (same, advance) in itertools.product((1, 2, 3, 4), itertools.product((1, 2, 3), repeat=3), ((False, 0), (True, 0), (False, 1), (False, 3))):
        for mins in itertools.product((0, 1, 2, 3), repeat=3):
            with warnings.catch_warnings():
                warnings.simplefilter("ignore")
                mc = MonteCarlo(Atoms(), max_cycles=cycles, seed=1)
            total = 0
            shared = PMove()  # the same move object may be registered under several names
            for i, m in enumerate(mins):
                n += 1
                if i == 2 and advance and mc.moves:
                    try:
                        mc.run(advance)  # the table is extended while the simulation is under way (some moves not due at this step)
                    except Exception as e:  # noqa: BLE001
                        # the table built so far cannot be scheduled: an over-committing addition was accepted earlier
                        viol.append({"signature": "C09/add_move/accepted-table-cannot-be-scheduled", "what": f"cycles={cycles}, minimum counts {mins[:i]} (intervals {ivs[:i]}) were accepted by add_move but run({advance}) raises {type(e).__name__}: {e}"[:300], "replay": {"cycles": cycles, "mins": mins[:i], "intervals": ivs[:i]}})
                        break
                before = list(mc.moves)
                should_refuse = total + m > cycles
                try:
                    mc.add_move(shared if same else PMove(), criteria=PCrit(), name=NAMES[i], minimum_count=m, interval=ivs[i])
                    refused = False
                except ValueError:
                    refused = True
                if refused != should_refuse:
                    viol.append({"signature": f"C09/add_move/{'over-commit-accepted' if should_refuse else 'valid-move-refused'}", "what": f"cycles={cycles}, minimum counts so far {mins[:i]} (intervals {ivs[:i]}, same move object: {same}, steps run before the last addition: {advance}), adding {m} with interval {ivs[i]}: refused={refused}", "replay": {"cycles": cycles, "mins": mins[: i + 1], "intervals": ivs[: i + 1]}})
                if refused and list(mc.moves) != before:
                    viol.append({"signature": "C09/add_move/table-changed-by-refused-addition", "what": "a refused add_move modified the table", "replay": {}})
                if not refused:
                    total += m
            mc.close()
    return n


def run(tier, seed):
    rep = Report("model_checking")
    acc = Acc()
    steps = list(range(7))
    items = []
    for n, alpha in ((1, FULL), (2, FULL)):
        for t in tables(n, alpha):
            for c in (1, 2, 3, 4):
                items.append((t, c))
    alpha3 = SMALL if tier == "quick" else MID
    for t in tables(3, alpha3):
        for c in (1, 2, 3, 4) if tier == "quick" else (1, 2, 3, 4):
            items.append((t, c))
    # weights are relative: tables whose weights are all tiny, all huge, or non-integer must behave like their scaled twins
    for scale in (1e-9, 1e9, 0.37):
        for t in (((1, 2 * scale, 0), (1, 3 * scale, 1)), ((1, 1 * scale, 0), (2, 3 * scale, 0)), ((1, 1 * scale, 1),), ((1, 1 * scale, 0), (1, 0.0, 1), (2, 2 * scale, 0))):
            for c in (1, 2, 3):
                items.append((t, c))
    rot = seed % len(items)
    items = items[rot:] + items[:rot]  # seed only rotates the order of work
    chunk = max(1, len(items) // 256)
    args = [{"items": items[i : i + chunk], "steps": steps} for i in range(0, len(items), chunk)]
    for r in pmap(__name__, "task", args):
        acc.add(r)
    two = [(t, c) for t in tables(2, FULL if tier == "thorough" else MID) for c in (2, 3)]
    ch2 = max(1, len(two) // 64)
    for r in pmap(__name__, "task_edits", [{"items": two[i : i + ch2]} for i in range(0, len(two), ch2)]):
        acc.add(r)
    two_s = [(t, c) for t in tables(2, SMALL if tier == "quick" else MID) for c in (2, 3)]
    ch3 = max(1, len(two_s) // 32)
    for r in pmap(__name__, "task_drivers", [{"driver": k, "rebuilt": rb} for k in ("Canonical", "Isobaric", "Isotension", "GrandCanonical") for rb in (False, True)]):
        acc.add(r)
    for r in pmap(__name__, "task_midstep", [{"items": two_s[i : i + ch3]} for i in range(0, len(two_s), ch3)]):
        acc.add(r)
    viol = list(acc.violations)
    nref = refusal(viol)
    rep.violations = viol
    rep.coverage = {
        "tables_x_cycles": len(items),
        "states": len(acc.sets.get("states", ())),
        "transitions": acc.n("transitions"),
        "traces_validated_against_impl": acc.n("executions"),
        "executions": acc.n("executions"),
        "table_step_instances": acc.n("instances"),
        "instances_with_more_than_one_sequence": acc.n("nontrivial"),
        "skipped_outside_precondition": acc.n("skipped_outside_precondition"),
        "add_move_refusal_cases": nref,
        "in_place_table_edits_checked": acc.n("edits"),
        "mid_step_weight_edits_checked": acc.n("midstep_edits"),
        "violating_instances": acc.n("violating_instances"),
        "bound": f"tables of 1-2 moves over interval{{1,2,3}} x weight{{0,1,3}} x min{{0,1,2}}, tables of 3 moves over {'interval{1,2} x weight{0,1} x min{0,1}' if tier == 'quick' else 'interval{1,2,3} x weight{0,1,3} x min{0,1}'}; cycles 1-4; steps 0-6; every generator answer; distributions of attempt multisets compared; plus Canonical/Isobaric/Isotension/GrandCanonical with their two default moves set to 6x6 (interval, weight, minimum count) combinations after construction and after a rebuild from the dictionary, steps 0-2 reached through irun; add_move refusal over cycles 1-4 x intervals 1-3 (three moves) x minimum counts 0-3, also with the run advanced by 1 or 3 steps",
        "exhaustive": True,
        "samples": acc.samples[:3],
    }
    rep.assumptions = ["numpy's Generator.choice law (uniform ordered subsets without replacement; independent weighted draws) is modelled by the choice-point generator", "tables outside the stated preconditions (all due weights zero with a free slot; over-committed minimum counts) are only used for the refusal clause"]
    return rep


def replay(data):
    if data.get("func") == "task_drivers":
        res = task_drivers(data["arg"])
        return {"signatures": sorted({v["signature"] for v in res["violations"]})}
    if data.get("func") == "task_midstep":
        res = task_midstep(data["arg"])
        return {"signatures": sorted({v["signature"] for v in res["violations"]}), "counters": res["counters"]}
    if data.get("func") == "task_edits":
        res = task_edits(data["arg"])
        return {"signatures": sorted({v["signature"] for v in res["violations"]}), "counters": res["counters"]}
    res = task_replay(data["arg"])
    return {"signatures": sorted({v["signature"] for v in res["violations"]}), "counters": res["counters"]}
