"""C04 - energies used for acceptance belong to the configuration they describe.

Same exhaustive history exploration as C03, crossed with calculator caching styles, with a real
logger attached.  After every trial (side-effect-free probe): the energy the calculator would
report for the current atoms and ``context.last_potential_energy`` are compared with a
from-scratch evaluation by an independent calculator instance on ``atoms.copy()``; remembered
positions/cell are compared with the current ones; evaluation counts are compared with the
number of trials that reached a criteria.
"""

from __future__ import annotations

import re

import numpy as np

from qv.core import Chooser, Stats, explore, js
from qv.drive import execute
from qv.rngx import Policy
from qv.runner import Acc, Report, pmap
from qv.snapshot import digest

PID = "C04"
POLICY = dict(uniform_q=(0.3, 0.8), angular_q=None, normal_z=(-1.0, 0.6), product_limit=0, branch_calls=1)
TOL = 1e-10


def specs(tier, seed):
    j = 0.01 * ((seed % 7) + 1)
    out = []
    d0 = 2 if tier == "quick" else 3

    def add(ens, atoms, table, calc, depth=None, **kw):
        out.append(dict(ens=ens, atoms=atoms, table=table, calc=calc, log=True, jitter=j, depth=depth or d0, **kw))

    for calc in ("pairsoft", "bare", "lj"):
        add("Canonical", "A3", [["d", "D_ball"]], calc, check=(calc == "pairsoft"))
        add("Canonical", "A3", [["d", "D_ball*2"], ["t", "D_trans"]], calc)
    add("Canonical", "M", [["d", "D_rot"], ["b", "D_ballbox"]], "emt")
    add("Canonical", "Cu3", [["d", "D_box"]], "emt", check=True)
    for calc in ("harmonic", "quartic"):
        add("HamiltonianCanonical", "A3", [["h", "H1"]], calc, decos=["momenta"])
        add("HamiltonianCanonical", "A2", [["h", "H"], ["d", "D_ball"]], calc, check=True)
    for calc in ("pairsoft", "bare", "lj"):
        add("Isobaric", "A3", [["c", "C_iso"], ["d", "D_ball"]], calc, check=(calc == "pairsoft"))
        add("Isotension", "T3", [["c", "C_aniso"], ["s", "C_shape"]], calc, stress=[[0.001, 0.0005, 0], [0.0005, 0.002, 0], [0, 0, 0.001]])
    add("Isobaric", "Cu3", [["c", "C_aniso_ns"]], "emt")
    for calc in ("pairsoft", "bare", "peratom", "lj"):
        add("GrandCanonical", "A2", [["e", "E_trans"], ["d", "D_ball"]], calc, check=(calc == "pairsoft"))
        add("GrandCanonical", "A2", [["e", "E_trans*2"]], calc)
    add("GrandCanonical", "Cu3", [["e", "E_trans"]], "emt")
    add("GrandCanonical", "M1", [["e", "E_transrot"], ["d", "D_rot"]], "pairsoft")
    add("GrandCanonical", "M1", [["e", "E_transrot"]], "emt")
    add("GrandCanonical", "A0", [["e", "E_trans"]], "pairsoft", depth=3)
    # one trial deleting one particle and inserting another: the composition changes at constant atom count
    add("GrandCanonical", "AK", [["x", "G[E0_trans,E1_trans]", 1.0, "gc"], ["d", "D_ball"]], "pairsoft")
    add("GrandCanonical", "AK", [["x", "G[E0_trans,E1_trans]", 1.0, "gc"]], "peratom")
    # two species and a species-dependent potential: a rejected double deletion must put every species back in its place
    add("GrandCanonical", "AK", [["e", "E_trans*2"]], "pairspecies")
    add("GrandCanonical", "AK", [["e", "E_trans+E_trans"], ["d", "D_ball"]], "pairspecies")
    # constrained atoms moved by a trial that does not honour the constraint (cell scaling), then rejected
    add("Isobaric", "A3", [["c", "C_iso"], ["d", "D_ball"]], "pairsoft", decos=["fix:0"])
    add("Isotension", "T3", [["c", "C_aniso"]], "pairsoft", decos=["fix:1"])
    # state changed by the user between construction and the first run
    add("Canonical", "A3", [["d", "D_ball"]], "pairsoft", late=["shift"])
    add("Isobaric", "A3", [["c", "C_iso"], ["d", "D_ball"]], "pairsoft", late=["strain"])
    add("Isotension", "T3", [["c", "C_aniso"]], "pairsoft", late=["strain", "shift"])
    add("Isobaric", "Cu3", [["c", "C_iso"], ["d", "D_ball"]], "emt", late=["strain"])
    add("GrandCanonical", "A2", [["e", "E_trans"]], "pairsoft", late=["shift"])
    add("HamiltonianCanonical", "A3", [["h", "H1"]], "harmonic", late=["momenta", "shift"])
    # collective constraint + vetoed attempts
    add("Canonical", "A3", [["d", "D_ball"]], "pairsoft", decos=["fixcom"], check=True)
    add("Canonical", "M", [["d", "D_rot"], ["t", "D_trans"]], "emt", decos=["fixcom"], check=True)
    if tier == "thorough":
        add("GrandCanonical", "A1", [["e", "E_trans"], ["d", "D_ball"]], "pairsoft", depth=4, check=True)
        add("GrandCanonical", "A1", [["x", "D_ball+E_trans", 1.0, "gc"]], "pairsoft", depth=3)
        add("Canonical", "A2", [["d", "D_ball"]], "pairsoft", depth=5)
        add("Isobaric", "A2", [["c", "C_iso"], ["d", "D_ball"]], "pairsoft", depth=4)
        add("HamiltonianCanonical", "A2", [["h", "H1"]], "quartic", depth=4, check=True)
    return out


STYLE = {"pairsoft": "caching", "pairspecies": "caching", "harmonic": "caching", "quartic": "caching", "zero": "caching", "bare": "stateless", "peratom": "per-atom-state", "lj": "per-atom-state:ase-lj", "emt": "per-atom-state:ase-emt"}


def _probe(sysm):
    """Side-effect free observation of the energy bookkeeping."""
    atoms, ctx, calc = sysm.atoms, sysm.mc.context, sysm.atoms.calc
    out = {"evals": getattr(calc, "evaluations", None)}
    fresh = sysm.calc_factory()
    a = atoms.copy()
    a.calc = fresh
    try:
        out["fresh"] = float(a.get_potential_energy())
    except Exception as e:  # noqa: BLE001
        out["fresh"] = None
        out["fresh_error"] = repr(e)[:100]
    if hasattr(calc, "check_state") and hasattr(calc, "results"):
        try:
            changes = list(calc.check_state(atoms))
        except Exception as e:  # noqa: BLE001
            changes = [f"check_state raised {type(e).__name__}"]
        out["changes"] = changes
        out["cached"] = None if "energy" not in calc.results else float(calc.results["energy"])
    else:
        out["changes"] = None
        out["cached"] = None
    lpe = getattr(ctx, "last_potential_energy", None)
    out["last_E"] = None if lpe is None else float(lpe)
    lp = getattr(ctx, "last_positions", None)
    out["pos_ok"] = None if lp is None else (np.shape(lp) == atoms.positions.shape and bool(np.array_equal(lp, atoms.positions)))
    lc = getattr(ctx, "last_cell", None)
    out["cell_ok"] = None if lc is None else bool(np.array_equal(np.asarray(lc), atoms.cell.array))
    return out


def _judge_probe(ev, p, V, counters, hamil, style):
    bad = False
    if p["fresh"] is None:
        return False
    tol = TOL * max(1.0, abs(p["fresh"]))
    counters["energy_comparisons"] += 1
    if p["changes"] is not None:
        if p["changes"] == [] and p["cached"] is not None:
            if abs(p["cached"] - p["fresh"]) > tol:
                V(f"{ev}/reported-energy-stale", f"calculator reports cached {p['cached']!r} for the current atoms, fresh evaluation gives {p['fresh']!r}")
                bad = True
        elif not hamil and style != "stateless":
            V(f"{ev}/recompute-needed", f"after the trial the calculator no longer holds results for the current atoms (changes {p['changes']}): logging the energy costs a recomputation")
            bad = True
    if p["last_E"] is not None and not abs(p["last_E"] - p["fresh"]) <= tol:
        V(f"{ev}/reference-energy-wrong", f"context.last_potential_energy {p['last_E']!r} differs from a fresh evaluation {p['fresh']!r} of the current atoms")
        bad = True
    if p["pos_ok"] is False:
        V(f"{ev}/remembered-positions-differ", "context.last_positions differ from the current positions")
        bad = True
    if p["cell_ok"] is False:
        V(f"{ev}/remembered-cell-differs", "context.last_cell differs from the current cell")
        bad = True
    return bad


def task(spec):
    depth = spec["depth"]
    policy = Policy(**POLICY)
    viol, samples = [], []
    counters = {"executions": 0, "trials": 0, "energy_comparisons": 0, "count_checks": 0, "nontrivial": 0}
    sets = {"states": set(), "outcomes": set()}
    st = Stats()
    only = spec.get("only")
    style = STYLE[spec["calc"]]
    hamil = any(e[1].startswith("H") for e in spec["table"])

    if spec.get("only") is None and depth > 2:
        from qv.checks.c03 import _late as _l
        from qv.core import plan_depth

        def _mk(d):
            def r(ch):
                sysm, trials = execute(spec, ch, d, policy, setup=_l(spec))
                sysm.close()
                return trials

            return r

        planned, _e1 = plan_depth(_mk, depth, cap=25_000)
        if planned < depth:
            counters["specs_with_reduced_depth"] = 1
        depth = planned

    def run(ch):
        from qv.checks.c03 import _late

        sysm, trials = execute(spec, ch, depth, policy, probe=_probe, setup=_late(spec))
        final = {"evals": getattr(sysm.atoms.calc, "evaluations", None)}
        # the calculator must remain usable for the next evaluation
        if not any(t.error for t in trials):
            try:
                sysm.atoms.positions = sysm.atoms.positions + 0.01
                e = sysm.atoms.get_potential_energy()
                a = sysm.atoms.copy()
                a.calc = sysm.calc_factory()
                final["next_ok"] = abs(e - a.get_potential_energy()) <= TOL * max(1, abs(e))
                final["next_err"] = None
            except Exception as e:  # noqa: BLE001
                final["next_ok"] = False
                final["next_err"] = f"{type(e).__name__}: {e}"[:120]
        sysm.close()
        return trials, final

    gen = explore(run, stats=st) if only is None else None
    if only is not None:
        c = Chooser(only)
        gen = [(c, run(c))]
    for ch, (trials, final) in gen:
        counters["executions"] += 1
        rep = {"check": PID, "func": "task", "arg": {**{k: v for k, v in spec.items() if k != "only"}, "only": ch.choices}}
        hist = js([[t.name, t.verdict] for t in trials])
        reached = 0
        bad = False
        prev_rejected_exchange = False
        for t in trials:
            counters["trials"] += 1
            mk = re.sub(r"_[a-z]+", "", next((e[1] for e in spec["table"] if e[0] == t.name), t.name))
            ev = {True: "accepted", False: "rejected", None: "failed"}.get(t.verdict, str(t.verdict))
            ac = t.at_criteria
            if ac is not None and t.pre is not None and ac["n"] != t.pre["n"]:
                ev += "-insertion" if ac["n"] > t.pre["n"] else "-deletion"
            sig0 = f"C04/{spec['ens']}/{mk}/{style}"

            def V(clause, what):
                viol.append({"signature": f"{sig0}/{clause}", "what": f"{what} (history {hist})", "replay": rep})

            if t.error is not None:
                V(f"exception/{t.error['type']}@{t.error['qwhere'] or t.error['where']}", f"trial of {t.name} raised {t.error['type']}: {t.error['msg']}")
                bad = True
                break
            if ac is not None:
                from qv.snapshot import arr_key

                same = (
                    ac["n"] == t.pre["n"]
                    and arr_key(ac["positions"]) == t.pre["arrays"]["positions"]
                    and arr_key(ac["cell"]) == t.pre["cell"]
                )
                if not same:  # a null proposal legitimately hits the cache
                    reached += 1
            probes = [(ev, t.extra_post)]
            if t is trials[0] and t.extra_pre is not None:
                probes.insert(0, ("initial", t.extra_pre))
            sets["outcomes"].add((mk, ev, style))
            sets["states"].add(digest(t.post))
            if t.verdict is not True:
                counters["nontrivial"] += 1
            for pev, p in probes:
                bad = _judge_probe(pev, p, V, counters, hamil, style) or bad
            if bad:
                break
        if bad:
            continue
        if final.get("next_ok") is False:
            viol.append({"signature": f"C04/{spec['ens']}/{style}/next-evaluation-fails", "what": f"after the history {hist} the next energy evaluation fails or is wrong: {final.get('next_err')}", "replay": rep})
            continue
        if not hamil and style != "stateless" and final["evals"] is not None and len(trials) == depth:
            counters["count_checks"] += 1
            used = final["evals"]  # read before the forced evaluation of the usability clause
            if used != 1 + reached:
                viol.append(
                    {
                        "signature": f"C04/{spec['ens']}/{style}/evaluation-count:{'more' if used > 1 + reached else 'fewer'}",
                        "what": f"{used} energy evaluations for 1 initial + {reached} trials that reached a criteria (history {hist}, logger attached)",
                        "replay": rep,
                    }
                )
        if len(samples) < 2:
            samples.append({"spec": js({k: v for k, v in spec.items() if k != "only"}), "history": hist, "post_probe": js([t.extra_post for t in trials]), "evaluations": final["evals"]})
    counters["transitions"] = st.points
    return {"counters": counters, "sets": {k: list(v) for k, v in sets.items()}, "violations": viol, "samples": samples, "maxima": {"max_depth": st.max_depth}}


def run(tier, seed):
    rep = Report("model_checking")
    acc = Acc()
    sp = specs(tier, seed)
    for r in pmap(__name__, "task", sp):
        acc.add(r)
    rep.violations = acc.violations
    rep.coverage = {
        "systems": len(sp),
        "states": len(acc.sets.get("states", ())),
        "transitions": acc.n("transitions"),
        "traces_validated_against_impl": acc.n("executions"),
        "executions": acc.n("executions"),
        "trials": acc.n("trials"),
        "energy_comparisons": acc.n("energy_comparisons"),
        "evaluation_count_checks": acc.n("count_checks"),
        "rejected_or_failed_trials": acc.n("nontrivial"),
        "distinct_outcomes": sorted(":".join(x) for x in acc.sets.get("outcomes", ())),
        "bound": "all histories to depth 2 (quick) / 3-5 (thorough) per system; calculators: caching ASE Calculator, stateless non-Calculator object, per-atom-state (harness, ASE LennardJones, ASE EMT)",
        "exhaustive": True,
        "samples": acc.samples[:3],
    }
    rep.assumptions = ["the probe is side-effect free: it reads calc.check_state/results instead of calling get_potential_energy", "independent calculator instance on atoms.copy() is the energy oracle"]
    return rep


def replay(data):
    res = task(data["arg"])
    return {"signatures": sorted({v["signature"] for v in res["violations"]}), "counters": res["counters"]}
