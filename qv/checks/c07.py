"""C07 - restarting from any saved step continues the same trajectory.

For every configuration (ensembles that accept ``restart_file`` x component tables x seeds) an
uninterrupted run of n steps writes its restart file into a stream whose content is captured
after every observer call; then, for EVERY k in 0..n, the captured bytes are loaded the
documented way (read_json -> Cls.from_dict -> attach a fresh calculator) and the remaining n-k
steps are run and compared step by step with the uninterrupted run.  Crash-point enumeration
with the restart file as the only surviving state.
"""

from __future__ import annotations

import io
import json
import re
import warnings

import numpy as np

from qv.core import js
from qv.runner import Acc, Report, pmap
from qv.snapshot import atoms_diff, atoms_snapshot
from qv.systems import build, flatten_moves

PID = "C07"


def specs(tier, seed):
    out = []
    seeds = [11, 2**40 + 3, 1000 + seed % 997] if tier == "quick" else [11, 2**40 + 3, 1000 + seed % 997, 0, 2**64 - 1]
    n = 6 if tier == "quick" else 10

    def add(ens, atoms, table, **kw):
        for s in seeds:
            out.append(dict(ens=ens, atoms=atoms, table=table, seed=s, n=n, max_cycles=2, **kw))

    for key in ("D_ball", "D_box", "D_sphere", "D_trans", "D_ballbox", "D_ball*2", "D_ball+D_box"):
        add("Canonical", "A3", [["d", key]])
    add("Canonical", "M", [["r", "D_rot"], ["t", "D_transrot"]])
    add("HamiltonianCanonical", "A3", [["h", "H"]], calc="harmonic", decos=["momenta"])
    add("HamiltonianCanonical", "A3", [["h", "H1"], ["d", "D_ball"]], calc="quartic")
    add("Isobaric", "A3", [["c", "C_iso"], ["d", "D_ball"]])
    add("Isobaric", "T3", [["c", "C_aniso_m"]])
    add("Isobaric", "A3", [["c", "C_shape_m"], ["i", "C_iso_m"]])
    add("Isotension", "T3", [["c", "C_aniso"], ["d", "D_box"]], stress=[[0.001, 0.0005, 0], [0.0005, 0.002, 0], [0, 0, 0.001]])
    add("GrandCanonical", "A3", [["e", "E_trans"]], calc="zero", T=800.0, mu=-0.3)
    add("GrandCanonical", "A3", [["e", "E_trans"], ["d", "D_ball"]], T=800.0, mu=-0.3)
    add("GrandCanonical", "M", [["e", "E_transrot"], ["d", "D_rot"]], calc="zero", T=800.0, mu=-0.2)
    add("GrandCanonical", "A3", [["e", "E_trans*2"]], calc="zero", T=800.0, mu=-0.3)
    add("GrandCanonical", "A3", [["x", "D_ball+E_trans", 1.0, "gc"]], calc="zero", T=800.0, mu=-0.3)
    # cell moves whose flags differ from one another (scale_atoms off, constraints on)
    add("Isobaric", "T3", [["c", "C_aniso_ns"], ["d", "D_ball"]])
    # particle-conserving relocation with a constraint indexed after the exchangeable atoms
    add("GrandCanonical", "A3", [["x", "G[E0_trans,E1_trans]", 1.0, "gc"], ["e", "E_trans"]], calc="zero", T=800.0, mu=-0.3, labels=[0, 1, -1], decos=["fix:2"])
    add("GrandCanonical", "A3", [["x", "G[E0_trans,E1_trans]", 1.0, "gc"], ["e", "E0_trans"], ["d", "D_ball"]], T=800.0, mu=-0.3, labels=[0, 1, -1], decos=["fix:2", "tags"])
    # a user-supplied geometric check that refuses some attempts (max_attempts = 2): failed trials in the history
    add("GrandCanonical", "A3", [["e", "E_trans"], ["d", "D_ball"]], calc="zero", T=800.0, mu=-0.3, geo_check=True)
    add("GrandCanonical", "A3", [["e", "E_trans*2"], ["f", "E_trans"]], calc="zero", T=800.0, mu=-0.3, geo_check=True)
    add("Canonical", "A3", [["d", "D_box"], ["s", "D_ball*2"]], geo_check=True)
    add("HamiltonianCanonical", "A3", [["h", "H"]], calc="harmonic", decos=["momenta"], geo_check=True)
    # constraints without an index list (they do not survive slicing an Atoms object)
    add("Canonical", "A3", [["d", "D_ball"], ["b", "D_box"]], decos=["fixcom"])
    add("Isobaric", "A3", [["c", "C_iso"], ["d", "D_ball"]], decos=["fixcom"])
    # settings a user changes after construction: label for new atoms, accessible volume
    add("GrandCanonical", "A3", [["e", "E_trans"], ["d", "D_ball"]], calc="zero", T=800.0, mu=-0.25, user_settings={"default_label": 0, "accessible_volume": 90.0})
    add("GrandCanonical", "A3", [["e", "E_trans"]], calc="zero", T=800.0, mu=-0.3, user_settings={"default_label": -1, "accessible_volume": 400.0})
    return out


def slab_check(context):
    """A user's geometric check (not serialized: re-attached after a restart, as documented):
    at most two atoms may sit in the slab x mod 6 >= 2.5."""
    x = context.atoms.positions[:, 0] % 6.0
    return int((x >= 2.5).sum()) <= 2


def attach_check(sim, set_attempts):
    for st in sim.moves.values():
        for m in flatten_moves(st.move):
            if hasattr(m, "check_move"):
                m.check_move = slab_check
                if set_attempts:
                    m.max_attempts = 2


def leaves_of(sim):
    out = []  # with multiplicity: object identity inside a table is not observable behaviour
    for name in sorted(sim.moves):
        for m in flatten_moves(sim.moves[name].move):
            if hasattr(m, "labels"):
                out.append(m)
    return out


def observe(sim):
    ctx = sim.context
    lpe = getattr(ctx, "last_potential_energy", None)
    return {
        "atoms": atoms_snapshot(sim.atoms),
        "reference_energy": None if lpe is None else float(lpe),
        "history": [(str(a), b) for a, b in sim.move_history],
        "labels": [np.asarray(m.labels).tolist() for m in leaves_of(sim)],
        "particle_counter": getattr(ctx, "number_of_exchange_particles", None),
        "generator_state": json.dumps(sim._rng.bit_generator.state, sort_keys=True, default=str),
        "step_count": int(sim.step_count),
        "settings": {n: repr(np.asarray(getattr(sim, n), dtype=float).tolist()) for n in ("temperature", "pressure", "external_stress", "chemical_potential", "accessible_volume", "max_cycles") if hasattr(sim, n)},
    }


def first_difference(a, b):
    for k in ("step_count", "settings", "history", "atoms", "reference_energy", "labels", "particle_counter", "generator_state"):
        if k == "atoms":
            d = atoms_diff(a["atoms"], b["atoms"])
            if d:
                return "atoms:" + ",".join(sorted({x.split(":")[0] for x in d})), d
        elif k == "reference_energy":
            x, y = a[k], b[k]
            if (x is None) != (y is None) or (x is not None and not (abs(x - y) <= 1e-12 * max(1.0, abs(x)))):
                return k, (x, y)
        elif a[k] != b[k]:
            return k, (str(a[k])[:120], str(b[k])[:120])
    return None


class Watch:
    """Observer (interval 1) recording the observable state after every completed step."""

    interval = 1

    def __init__(self, sim, store):
        self.sim, self.store = sim, store

    def __call__(self):
        self.store[int(self.sim.step_count)] = observe(self.sim)

    def close(self):
        pass


class Capture:
    def __init__(self, inner, buf, sim, store):
        self.inner, self.buf, self.sim, self.store = inner, buf, sim, store

    @property
    def interval(self):
        return self.inner.interval

    def __call__(self):
        self.inner()
        self.store[int(self.sim.step_count)] = self.buf.getvalue()

    def close(self):
        self.inner.close()


def task(spec):
    from ase.io.jsonio import read_json

    n = spec["n"]
    counters = {"configurations": 1, "restarts": 0, "steps_compared": 0, "nontrivial": 0}
    viol = []
    kind = re.sub(r"_[a-z0-9]+", "", "|".join(e[1] for e in spec["table"])) + ("/user-check" if spec.get("geo_check") else "")
    sig0 = f"C07/{spec['ens']}/{kind}"
    rep = {"check": PID, "func": "task", "arg": spec}

    def V(clause, what):
        if not any(v["signature"] == f"{sig0}/{clause}" for v in viol):
            viol.append({"signature": f"{sig0}/{clause}", "what": f"{what}; table {spec['table']} seed {spec['seed']}", "replay": rep})

    warnings.simplefilter("ignore")
    sysm = build(spec)
    sim = sysm.mc
    us = spec.get("user_settings") or {}
    if "accessible_volume" in us:
        sim.accessible_volume = us["accessible_volume"]
    if "default_label" in us:
        for m in leaves_of(sim):
            m.default_label = us["default_label"]
    if spec.get("geo_check"):
        attach_check(sim, True)
    buf = io.StringIO()
    try:
        sim.default_restart = buf
    except Exception as e:  # noqa: BLE001
        V(f"restart-observer/exception:{type(e).__name__}", str(e))
        return {"counters": counters, "violations": viol}
    files: dict[int, str] = {}
    obs = sim.file_manager.observers
    obs["default_restart"] = Capture(obs["default_restart"], buf, sim, files)
    ref = {}
    obs["zz_watch"] = Watch(sim, ref)
    try:
        sim.run(n)
    except Exception as e:  # noqa: BLE001
        V(f"uninterrupted-run/exception:{type(e).__name__}", f"{e}"[:200])
        sim.close()
        return {"counters": counters, "violations": viol}
    cls = type(sim)
    sim.close()
    for k in range(0, n + 1):
        if k not in files:
            # the statement speaks of the steps at which the observer wrote (its cadence is C15's
            # subject); only an observer that never writes at all makes the check vacuous
            if not files:
                V("restart-file-never-written", f"the restart observer wrote nothing during {n} steps")
                break
            counters["steps_without_restart_file"] = counters.get("steps_without_restart_file", 0) + 1
            continue
        counters["restarts"] += 1
        try:
            data = read_json(io.StringIO(files[k]))
            sim2 = cls.from_dict(data)
            sim2.atoms.calc = sysm.calc_factory()
            if spec.get("geo_check"):
                attach_check(sim2, False)
        except Exception as e:  # noqa: BLE001
            import traceback

            tb = traceback.extract_tb(e.__traceback__)
            where = next((f"{fr.filename.split('/quansino/')[-1]}:{fr.name}" for fr in reversed(tb) if "/quansino/" in fr.filename), "")
            V(f"load/exception:{type(e).__name__}@{where}", f"restart point {k}: {e}"[:250])
            continue
        try:
            if int(sim2.step_count) != k:
                V("step-counter", f"restart point {k}: rebuilt simulation is at step {sim2.step_count}")
            got = {}
            sim2.file_manager.observers["zz_watch"] = Watch(sim2, got)
            sim2.run(n - k)
            if sorted(got) != list(range(k + 1, n + 1)) and not (k == 0 and sorted(got) == list(range(0, n + 1))):
                V("steps-performed", f"restart point {k}: resumed run reported steps {sorted(got)}")
            for j in sorted(got):
                if j not in ref:
                    continue
                counters["steps_compared"] += 1
                d = first_difference(ref[j], got[j])
                if d:
                    V(f"diverges/{d[0]}", f"restart point {k}: after step {j} the resumed run differs from the uninterrupted one in {d[0]}: {js(d[1])}"[:400])
                    break
            if 0 < k < n:
                counters["nontrivial"] += 1
        except Exception as e:  # noqa: BLE001
            import traceback

            tb = traceback.extract_tb(e.__traceback__)
            where = next((f"{fr.filename.split('/quansino/')[-1]}:{fr.name}" for fr in reversed(tb) if "/quansino/" in fr.filename), "")
            V(f"resume/exception:{type(e).__name__}@{where}", f"restart point {k}: {e}"[:250])
        finally:
            sim2.close()
    sample = {"spec": js({k: v for k, v in spec.items()}), "restart_points": sorted(files), "history_of_uninterrupted_run": [ref[k]["history"] for k in sorted(ref)][:4]}
    return {"counters": counters, "violations": viol, "samples": [sample]}


def task_forcebias(arg):
    """ForceBias offers restart_file: the file must at least be writable and loadable."""
    from ase.atoms import Atoms

    from qv import calcs
    from quansino.mc.fbmc import AdaptiveForceBias, ForceBias

    viol = []
    counters = {"configurations": 1, "restarts": 0, "steps_compared": 0, "nontrivial": 0}
    atoms = Atoms("Ar3", positions=[[1, 1.2, 0.9], [3.1, 2.2, 4.0], [4.4, 4.9, 2.1]], cell=[6] * 3, pbc=True)
    atoms.calc = calcs.PairSoft(centre=(3, 3, 3))
    buf = io.StringIO()
    warnings.simplefilter("ignore")
    cls = ForceBias if arg == "ForceBias" else AdaptiveForceBias
    try:
        sim = cls(atoms, 0.1, temperature=500.0, seed=3, restart_file=buf) if arg == "ForceBias" else cls(atoms, 0.05, 0.15, temperature=500.0, seed=3, restart_file=buf)
        sim.run(2)
        text = buf.getvalue()
        sim.close()
        ok = hasattr(cls, "from_dict")
        if not ok:
            viol.append({"signature": f"C07/{arg}/no-from_dict", "what": f"{arg} writes a restart file but offers no from_dict to rebuild from it", "replay": {}})
    except Exception as e:  # noqa: BLE001
        viol.append({"signature": f"C07/{arg}/restart-file-cannot-be-written:{type(e).__name__}", "what": f"{arg}(restart_file=...).run(2) raises {type(e).__name__}: {e}"[:250], "replay": {"check": PID, "func": "task_forcebias", "arg": arg}})
    return {"counters": counters, "violations": viol}


def run(tier, seed):
    rep = Report("fault_enumeration")
    acc = Acc()
    sp = specs(tier, seed)
    for r in pmap(__name__, "task", sp):
        acc.add(r)
    for r in pmap(__name__, "task_forcebias", ["ForceBias", "AdaptiveForceBias"]):
        acc.add(r)
    rep.violations = acc.violations
    rep.coverage = {
        "evaluations": acc.n("restarts"),
        "distinct_nontrivial": acc.n("nontrivial"),
        "rule": "one evaluation = one restart point k of one configuration (restart file bytes captured after the observer call at step k, loaded by read_json + from_dict + fresh calculator, remaining steps compared one by one); non-trivial = 0 < k < n",
        "configurations": acc.n("configurations"),
        "steps_compared": acc.n("steps_compared"),
        "exhaustive": True,
        "samples": acc.samples[:2],
    }
    rep.assumptions = ["real PCG64 generators with fixed seeds", "calculators are not serialized: a fresh instance of the same calculator is attached, as documented"]
    return rep


def replay(data):
    f = {"task": task, "task_forcebias": task_forcebias}[data["func"]]
    res = f(data["arg"])
    return {"signatures": sorted({v["signature"] for v in res["violations"]})}
