#!/bin/bash
# Re-runs every kept seeded change: applies seeded/<id>/patch.diff to a scratch worktree of /repo HEAD,
# runs the quick checks recorded in meta.json against it, and reports whether each still fires.
cd "$(dirname "$0")/.."
ok=0; bad=0
for d in seeded/*/; do
  id=$(basename $d)
  [ -n "$1" ] && [[ "$id" != $1* ]] && continue
  checks=$(/venv/bin/python -c "import json;print(' '.join(json.load(open('$d/meta.json'))['detected_by_quick_checks']))")
  out=$(tools/mutant.sh detect $(pwd)/$d/patch.diff rs-$id $checks 2>&1)
  if echo "$out" | grep -q "APPLY FAILED"; then echo "$id: PATCH DOES NOT APPLY"; bad=$((bad+1)); continue; fi
  miss=""
  for c in $checks; do echo "$out" | grep -q "VIOLATION property=$c" || miss="$miss $c"; done
  if [ -z "$miss" ]; then echo "$id: caught by $checks"; ok=$((ok+1)); else echo "$id: NOT CAUGHT by$miss"; bad=$((bad+1)); fi
done
echo "seeded changes caught: $ok, not caught / not applicable: $bad"
