"""C03 - a rejected or failed trial leaves the system exactly as it was.

Exhaustive enumeration of accept/reject/fail histories of the real run loop (see DESIGN 4-C03).
Oracles: (a) bitwise pre/post snapshot of the atoms for every trial with verdict False/None,
(b) the bookkeeping the property names, (c) differential futures: the subtree of behaviours
after a rejected/failed trial equals the subtree from the state before it.
"""

from __future__ import annotations

from qv.core import Chooser, Stats, explore, js
from qv.drive import execute
from qv.rngx import Policy
from qv.runner import Acc, Report, pmap
from qv.snapshot import atoms_diff, digest

PID = "C03"
POLICY = dict(uniform_q=(0.3, 0.8), angular_q=None, normal_z=(-1.0, 0.6), product_limit=0, branch_calls=1)


def specs(tier: str, seed: int) -> list[dict]:
    j = 0.01 * ((seed % 7) + 1)
    out = []

    def add(ens, atoms, table, decos=(), check=False, depth=None, **kw):
        out.append(dict(ens=ens, atoms=atoms, table=table, decos=list(decos), check=check, jitter=j, depth=depth, **kw))

    rich = ("tags", "momenta", "charges", "custom2d")
    # --- canonical
    add("Canonical", "A3", [["d", "D_ball"]], rich, check=True)
    add("Canonical", "A3", [["d", "D_trans"]], ("fix:2",))
    add("Canonical", "A3", [["d", "D_box"], ["s", "D_sphere"]], ("fixcom",))
    add("Canonical", "M", [["d", "D_rot"]], ("momenta",), check=True)
    add("Canonical", "M", [["d", "D_transrot"]], ("fix:0",))
    add("Canonical", "A3", [["d", "D_ball*2"]], ("custom2d",))
    add("Canonical", "A3", [["d", "D_ball+D_box"]], ("tags", "fix:1"))
    add("Canonical", "A3", [["d", "D_ballbox"]], ())
    add("Canonical", "A3", [["d", "D_ball"]], (), labels=[2, -1, 0])
    # --- hamiltonian
    add("HamiltonianCanonical", "A3", [["h", "H"]], ("momenta",), calc="harmonic", check=True)
    add("HamiltonianCanonical", "A3", [["h", "H1"], ["d", "D_ball"]], ("tags",), calc="harmonic")
    add("HamiltonianCanonical", "A3", [["h", "H1"]], (), calc="harmonic", late=["momenta"])
    add("HamiltonianCanonical", "A3", [["h", "H1"]], ("fix:1", "momenta"), calc="harmonic")
    # --- isobaric / isotension
    add("Isobaric", "A3", [["c", "C_iso"]], rich, check=True)
    add("Isobaric", "T3", [["c", "C_aniso_ns"], ["d", "D_ball"]], ("fix:0",))
    add("Isobaric", "A3", [["c", "C_iso+C_shape"]], ())
    add("Isotension", "T3", [["c", "C_shape"], ["a", "C_aniso"]], ("momenta",), stress=[[0.001, 0.0005, 0], [0.0005, 0.002, 0], [0, 0, 0.001]])
    # --- grand canonical
    add("GrandCanonical", "A3", [["e", "E_trans"]], rich, check=True)
    add("GrandCanonical", "A3", [["e", "E_trans"]], ("fix:0",))
    add("GrandCanonical", "A3", [["e", "E_trans"]], ("fix:1", "tags"))
    add("GrandCanonical", "A1", [["e", "E_trans"], ["d", "D_ball"]], ("momenta",))
    add("GrandCanonical", "A0", [["e", "E_trans"]], ())
    add("GrandCanonical", "M", [["e", "E_transrot"]], ("charges", "custom2d"), check=True)
    add("GrandCanonical", "M", [["e", "E_transrot"], ["d", "D_rot"]], ("fix:0",))
    add("GrandCanonical", "A3", [["e", "E_trans*2"]], ("tags",))
    add("GrandCanonical", "A3", [["e", "E_trans+E_trans"]], ("momenta", "fix:2"))
    add("GrandCanonical", "A3", [["x", "D_ball+E_trans", 1.0, "gc"]], ("tags",))
    add("GrandCanonical", "A2", [["x", "D_ball+E_trans+E_trans", 1.0, "gc"]], ())
    add("GrandCanonical", "A3", [["e", "E_trans"]], (), labels=[1, -1, 0])
    # state changed by the user between construction and the first run
    add("Canonical", "A3", [["d", "D_ball"]], ("tags",), late=["shift"])
    add("Isobaric", "A3", [["c", "C_iso"], ["d", "D_ball"]], (), late=["strain"])
    add("Isotension", "T3", [["c", "C_aniso"]], (), late=["strain", "shift"])
    add("GrandCanonical", "A2", [["e", "E_trans"]], ("tags",), late=["shift"])
    # the same simulation object run twice, atoms edited by the user in between
    add("Canonical", "A3", [["d", "D_ball"]], ("fix:1",), edit_between_runs=["shift"])
    add("Isobaric", "A3", [["c", "C_iso"], ["d", "D_ball"]], (), edit_between_runs=["strain"])
    add("GrandCanonical", "A2", [["e", "E_trans"], ["d", "D_ball"]], ("tags",), edit_between_runs=["shift"])
    add("HamiltonianCanonical", "A3", [["h", "H1"]], (), calc="harmonic", edit_between_runs=["momenta", "shift"])
    # collective constraint + vetoed attempts
    add("Canonical", "A3", [["d", "D_ball"]], ("fixcom",), check=True)
    add("Canonical", "M", [["d", "D_rot"], ["t", "D_trans"]], ("fixcom", "tags"), check=True)
    add("HamiltonianCanonical", "A3", [["h", "H1"]], ("fixcom", "momenta"), calc="harmonic", check=True)
    # plain composites exchanging in both directions within one trial, distinguishable atoms
    add("GrandCanonical", "A3", [["x", "D_ball+E_trans+E_trans", 1.0, "gc"]], rich)
    add("GrandCanonical", "M1", [["x", "D_rot+E_transrot+E_transrot", 1.0, "gc"]], ("tags", "charges"))
    # composite exchanges whose members' geometric checks may refuse (one member succeeds, another fails)
    add("GrandCanonical", "A2", [["e", "E_trans*2"]], ("tags",), check=True)
    add("GrandCanonical", "A2", [["e", "E_trans+E_trans"]], (), check=True)
    # particle-conserving relocation (delete one, insert one) with a constraint indexed after the exchangeable atoms
    add("GrandCanonical", "A3", [["x", "G[E0_trans,E1_trans]", 1.0, "gc"], ["e", "E0_trans"]], ("fix:2",), labels=[0, 1, -1], depth=2)
    add("GrandCanonical", "A3", [["x", "G[E0_trans,E1_trans]", 1.0, "gc"], ["e", "E_trans"]], ("fix:2", "tags"), labels=[0, 1, -1], depth=3)
    if tier == "thorough":
        for s in list(out):
            if s["depth"] is None:
                s["depth"] = 3
        add("Canonical", "M", [["d", "D_rot*2"]], ("fix:1",), check=True, depth=3)
        add("GrandCanonical", "M1", [["e", "E_transrot*2"]], ("masses",), depth=3)
        add("GrandCanonical", "A2", [["e", "E_trans"], ["d", "D_ball*2"]], rich, depth=4)
        add("GrandCanonical", "A2", [["e", "E_trans"]], ("magmoms", "fix:0"), depth=4, check=True)
        add("Isotension", "A3", [["c", "C_aniso"], ["d", "D_box"]], rich, depth=3, check=True)
        add("Isobaric", "A3", [["c", "C_shape"]], ("fixcom",), depth=4)
        add("HamiltonianCanonical", "A2", [["h", "H"]], ("momenta", "tags"), calc="quartic", depth=4, check=True)
        add("GrandCanonical", "A3", [["e", "E_trans", 1.0, "gc"], ["d", "D_trans"]], ("fix:0", "fix:2"), depth=3)
    for s in out:
        if s["depth"] is None:
            s["depth"] = 2
    return out


def _between(spec):
    """The user edits the atoms between two run() calls of the same simulation object."""
    ed = spec.get("edit_between_runs")
    if not ed:
        return None
    from qv.systems import decorate

    return (1, lambda sysm: decorate(sysm.atoms, ed))


def _late(spec):
    late = spec.get("late")
    if not late:
        return None
    from qv.systems import decorate

    return lambda sysm: decorate(sysm.atoms, late)


def movekey(spec, name):
    """Kind of the table entry: operation names stripped ('E_trans+E_trans' -> 'E+E')."""
    import re

    for e in spec["table"]:
        if e[0] == name:
            return re.sub(r"_[a-z]+", "", e[1])
    return name


def event_of(t):
    """Classify a trial: rejected/failed + exchange direction when recognisable."""
    ev = "rejected" if t.verdict is False else "failed" if t.verdict is None else str(t.verdict)
    ac = t.at_criteria
    if ac is not None and t.pre is not None:
        dn = ac["n"] - t.pre["n"]
        if dn > 0:
            ev += "-insertion"
        elif dn < 0:
            ev += "-deletion"
        elif ac.get("particle_delta"):
            ev += "-exchange"
    return ev


def constraint_kinds(spec):
    ks = sorted({d.split(":")[0] for d in spec.get("decos", []) if d.startswith("fix")})
    return "+".join(ks) if ks else "noconstraint"


def task(spec: dict) -> dict:
    depth = spec["depth"]
    policy = Policy(**POLICY)
    viol, counters, sets = [], {"executions": 0, "trials": 0, "nontrivial": 0}, {"states": set(), "outcomes": set()}
    tree: dict[tuple, dict] = {(): {"obs": None, "kids": {}, "fail": False, "ev": None}}
    samples = []
    st = Stats()
    only = spec.get("only")

    def make_run(d):
        def run(ch: Chooser):
            sysm, trials = execute(spec, ch, d, policy, setup=_late(spec), between_runs=_between(spec) if d > 1 else None)
            sysm.close()
            return trials

        return run

    if only is None and depth > 2:
        from qv.core import plan_depth

        planned, e1 = plan_depth(make_run, depth)
        if planned < depth:
            counters["specs_with_reduced_depth"] = 1
        depth = planned
    run = make_run(depth)

    gen = explore(run, stats=st) if only is None else None
    if only is not None:
        ch = Chooser(only)
        gen = [(ch, run(ch))]
    for ch, trials in gen:
        counters["executions"] += 1
        segs = ch.segments()
        path = ()
        for k, t in enumerate(trials):
            counters["trials"] += 1
            mk = movekey(spec, t.name)
            ck = constraint_kinds(spec)
            rep = {"check": PID, "func": "task", "arg": {**spec, "only": ch.choices}}
            if t.error is not None:
                counters["errors_seen"] = counters.get("errors_seen", 0) + 1
                ac = t.at_criteria
                seg_pts = [p for p in ch.trace if p.seg == t.seg]
                vetoed = any(p.kind == "user" and p.idx == 1 for p in seg_pts)
                abandoning = (ac is not None and ac.get("result") is False) or (ac is None and vetoed)
                if not abandoning:
                    # raised while proposing or accepting: not a statement of C03 (see C04/C05)
                    counters["errors_outside_abandon_path"] = counters.get("errors_outside_abandon_path", 0) + 1
                    break
                viol.append(
                    {
                        "signature": f"C03/{spec['ens']}/{mk}/exception/{t.error['type']}@{t.error['qwhere'] or t.error['where']}",
                        "what": f"trial raised {t.error['type']}: {t.error['msg']} (history {js([x.verdict for x in trials])})",
                        "replay": rep,
                    }
                )
                break
            ev = event_of(t)
            failed = t.verdict is False or t.verdict is None
            if failed:
                counters["nontrivial"] += 1
                d = atoms_diff(t.pre, t.post)
                if d:
                    viol.append(
                        {
                            "signature": f"C03/{spec['ens']}/{mk}/{ev}/{ck}/atoms-differ:{','.join(x.split(':')[0] + ':' + x.split(':')[-1] if ':' in x else x for x in d)}",
                            "what": f"after a {ev} trial of {mk} the atoms differ from the pre-trial snapshot in {d}",
                            "replay": rep,
                        }
                    )
                pb, qb = t.pre_book, t.post_book
                bad = []
                for f in ("_added_indices", "_deleted_indices", "_added_atoms", "_deleted_atoms"):
                    if qb.get(f):
                        bad.append(f)
                if qb.get("particle_delta"):
                    bad.append("particle_delta")
                if qb.get("nex") != pb.get("nex"):
                    bad.append("number_of_exchange_particles")
                for i, (m0, m1) in enumerate(zip(pb["moves"], qb["moves"])):
                    if m0["labels"] != m1["labels"]:
                        bad.append("labels")
                    for f in ("to_displace_labels", "to_add_atoms", "to_delete_label"):
                        if m1[f] is not None:
                            bad.append(f)
                if bad:
                    viol.append(
                        {
                            "signature": f"C03/{spec['ens']}/{mk}/{ev}/bookkeeping:{','.join(sorted(set(bad)))}",
                            "what": f"after a {ev} trial of {mk} pending bookkeeping remains: {sorted(set(bad))}",
                            "replay": rep,
                        }
                    )
            # tree bookkeeping for the differential-futures oracle
            seg = segs.get(t.seg, ())
            node = tree[path]
            obs = (
                t.name,
                repr(t.verdict),
                digest(t.post),
                tuple(float(f"{x:.9g}") for x in t.thresholds),
            )
            kid = path + (seg,)
            node["kids"][seg] = obs
            if kid not in tree:
                tree[kid] = {"obs": obs, "kids": {}, "fail": failed, "ev": (mk, ev), "choices": ch.choices}
            sets["states"].add(digest((t.post, t.post_book)))
            sets["outcomes"].add((mk, ev))
            path = kid
        if len(samples) < 2 and any(t.verdict in (False, None) for t in trials):
            samples.append({"spec": {k: v for k, v in spec.items() if k != "only"}, "choices": ch.describe()[:12], "history": [[t.name, js(t.verdict)] for t in trials]})
    # differential futures
    memo = {}

    def sub(path, r):
        key = (path, r)
        if key in memo:
            return memo[key]
        node = tree[path]
        if r == 0:
            res = ()
        else:
            res = tuple(sorted(((seg, obs, sub(path + (seg,), r - 1)) for seg, obs in node["kids"].items()), key=repr))
        memo[key] = res
        return res

    fut = 0
    # with user edits between runs only the restoration of the atoms is judged: the package does
    # not promise to re-validate cached energies after such an edit
    if only is None and not spec.get("edit_between_runs"):
        for path, node in tree.items():
            if not node["fail"]:
                continue
            r = depth - len(path)
            if r < 1:
                continue
            parent = path[:-1]
            fut += 1
            if sub(path, r) != sub(parent, r):
                mk, ev = node["ev"]
                viol.append(
                    {
                        "signature": f"C03/{spec['ens']}/{mk}/{ev}/{constraint_kinds(spec)}/future-differs",
                        "what": f"the behaviours reachable after a {ev} trial of {mk} differ from those reachable from the state before it (something leaked)",
                        "replay": {"check": PID, "func": "task", "arg": {k: v for k, v in spec.items() if k != "only"}, "after_choices": node["choices"]},
                    }
                )
    counters["futures_compared"] = fut
    counters["transitions"] = st.points
    counters["tree_nodes"] = len(tree)
    return {
        "counters": counters,
        "sets": {k: list(v) for k, v in sets.items()},
        "violations": viol,
        "samples": samples,
        "maxima": {"max_depth": st.max_depth},
    }


def run(tier: str, seed: int) -> Report:
    rep = Report("model_checking")
    acc = Acc()
    sp = specs(tier, seed)
    for r in pmap(__name__, "task", sp):
        acc.add(r)
    rep.violations = acc.violations
    rep.coverage = {
        "systems": len(sp),
        "states": len(acc.sets.get("states", ())),
        "transitions": acc.n("transitions"),
        "traces_validated_against_impl": acc.n("executions"),
        "executions": acc.n("executions"),
        "trials": acc.n("trials"),
        "rejected_or_failed_trials_checked": acc.n("nontrivial"),
        "futures_compared": acc.n("futures_compared"),
        "distinct_outcomes": sorted(f"{a}:{b}" for a, b in acc.sets.get("outcomes", ())),
        "max_choice_depth": acc.maxima.get("max_depth", 0),
        "bound": "all histories of depth d trials per system (d=2 quick, 3-4 thorough), menus: 2 joint proposal values for the first continuous draw of a trial, all discrete choices, all feasible verdicts, all check_move answers (max_attempts=2)",
        "exhaustive": True,
        "samples": acc.samples[:4],
    }
    rep.assumptions = [
        "menus under-approximate the generator: values between menu points are not explored",
        "ASE Atoms/constraints semantics trusted; harness calculators trusted",
    ]
    return rep


def replay(data: dict) -> dict:
    res = task(data["arg"])
    return {"signatures": sorted({v["signature"] for v in res["violations"]}), "counters": res["counters"]}
