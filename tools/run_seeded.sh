#!/bin/bash
# Re-runs every kept seeded change: applies seeded/<id>/patch.diff to a scratch worktree of /repo HEAD,
# runs the quick checks recorded in meta.json against it, and reports whether each still fires.
# usage: tools/run_seeded.sh [id-prefix] ; JOBS=4 (changes run concurrently, each check with QV_PROCS=16/JOBS)
cd "$(dirname "$0")/.."
JOBS=${JOBS:-4}
export QV_PROCS=${QV_PROCS:-$((16 / JOBS))}
one() {
  d=$1; id=$(basename $d)
  checks=$(/venv/bin/python -c "import json;print(' '.join(json.load(open('$d/meta.json'))['detected_by_quick_checks']))")
  out=$(tools/mutant.sh detect $(pwd)/$d/patch.diff rs-$id $checks 2>&1)
  if echo "$out" | grep -q "APPLY FAILED"; then echo "$id: PATCH DOES NOT APPLY"; return; fi
  miss=""
  for c in $checks; do echo "$out" | grep -q "VIOLATION property=$c" || miss="$miss $c"; done
  if [ -z "$miss" ]; then echo "$id: caught by $checks"; else echo "$id: NOT CAUGHT by$miss"; fi
}
export -f one
tmp=$(mktemp)
for d in seeded/*/; do
  id=$(basename $d)
  [ -n "$1" ] && [[ "$id" != $1* ]] && continue
  echo "${d%/}"
done | xargs -P $JOBS -I{} bash -c 'one {}' | tee $tmp
ok=$(grep -c ": caught by" $tmp); bad=$(grep -vc ": caught by" $tmp); rm -f $tmp
echo "seeded changes caught: $ok, not caught / not applicable: $bad"
