"""qv: exhaustive exploration of quansino under controlled environments (see /verif/DESIGN.md)."""

try:  # the package's sub-packages import each other; mc first is the order the test-suite uses
    import quansino.mc  # noqa: F401
except Exception:  # noqa: BLE001  (C08 reports import problems; other checks then fail loudly on use)
    pass
