"""C17 - combining moves and operations with + and * is faithful and order-preserving.

Every expression tree with up to 4 leaf nodes over 5 move kinds (and 4 operation kinds), binary
``+`` with every parenthesisation and ``* n`` on any one node, is built with the real operators
and compared, node by node bottom-up, with a flatten-and-classify reference model (identity of
the elementary objects, order, multiplicity, class of the result).  Invalid multipliers must
raise.  Plain composites of probe moves are called with every vector of scripted results.
"""

from __future__ import annotations

import itertools

import numpy as np

from qv.core import js
from qv.runner import Acc, Report, pmap

PID = "C17"


def _classes():
    from quansino.moves.cell import CellMove
    from quansino.moves.composite import CompositeMove
    from quansino.moves.core import BaseMove
    from quansino.moves.displacement import CompositeDisplacementMove, DisplacementMove, HamiltonianDisplacementMove
    from quansino.moves.exchange import CompositeExchangeMove, ExchangeMove
    from quansino.operations.displacement import Ball

    class Probe(BaseMove):
        """Generic move: records calls, returns a scripted result."""

        def __init__(self, result=True, log=None, tag=None):
            super().__init__(Ball(0.1))
            self.result, self.log, self.tag = result, log, tag

        def __call__(self, context):
            if self.log is not None:
                self.log.append(self.tag)
            return self.result

    class UserD(DisplacementMove):
        """A user's subclass of the displacement move: still of the displacement kind."""

    mk = {
        "D": lambda: DisplacementMove(np.arange(2)),
        "U": lambda: UserD(np.arange(2)),
        "E": lambda: ExchangeMove(np.arange(2)),
        "C": lambda: CellMove(),
        "G": lambda: Probe(),
        "H": lambda: HamiltonianDisplacementMove(),
    }
    exact = {"D": DisplacementMove, "E": ExchangeMove}
    spec = {"D": CompositeDisplacementMove, "E": CompositeExchangeMove}
    return mk, exact, spec, CompositeMove, Probe


def shapes(k):
    """All binary tree shapes with k leaves: 'L' or (left, right)."""
    if k == 1:
        return ["L"]
    out = []
    for i in range(1, k):
        for l in shapes(i):
            for r in shapes(k - i):
                out.append((l, r))
    return out


def nodes(shape, path=()):
    """All node paths of a shape (pre-order)."""
    out = [path]
    if shape != "L":
        out += nodes(shape[0], path + (0,))
        out += nodes(shape[1], path + (1,))
    return out


def show(shape, kinds, star, path=(), it=None):
    if it is None:
        it = iter(kinds)
    if shape == "L":
        s = next(it)
    else:
        s = "(" + show(shape[0], kinds, star, path + (0,), it) + "+" + show(shape[1], kinds, star, path + (1,), it) + ")"
    if star and star[0] == path:
        s = f"{s}*{star[1]}"
    return s


class Mismatch(Exception):
    def __init__(self, clause, what):
        self.clause, self.what = clause, what


def evaluate(shape, kinds_it, star, path, env):
    """Returns (real_object, model) where model = (flat list of leaf objects, set of leaf kinds, is_leaf)."""
    mk, exact, spec, CompositeMove, _ = env
    if shape == "L":
        kind = next(kinds_it)
        obj = mk[kind]()
        real, model = obj, ([obj], [kind], True)
    else:
        lr, lm = evaluate(shape[0], kinds_it, star, path + (0,), env)
        rr, rm = evaluate(shape[1], kinds_it, star, path + (1,), env)
        opnd = f"{'leaf' if lm[2] else 'composite'}+{'leaf' if rm[2] else 'composite'}"
        before = [list(getattr(o, "moves", [])) for o in (lr, rr)]
        try:
            real = lr + rr
        except Exception as e:  # noqa: BLE001
            raise Mismatch(f"add/{opnd}/exception:{type(e).__name__}", f"+ raised {type(e).__name__}: {e}") from e
        model = (lm[0] + rm[0], lm[1] + rm[1], False)
        compare(real, model, f"add/{opnd}", env)
        for o, b in zip((lr, rr), before):
            now = list(getattr(o, "moves", []))
            if len(now) != len(b) or any(x is not y for x, y in zip(now, b)) or (hasattr(o, "moves") and getattr(real, "moves", None) is o.moves):
                raise Mismatch(f"add/{opnd}/operand-modified-or-aliased", "an operand of + was changed by the addition (or shares its element list with the result)")
    if star and star[0] == path:
        n = star[1]
        opnd = "leaf" if model[2] else "composite"
        try:
            real2 = real * n if star[2] == "r" else n * real
        except Exception as e:  # noqa: BLE001
            raise Mismatch(f"mul/{opnd}/exception:{type(e).__name__}", f"* {n} raised {type(e).__name__}: {e}") from e
        model = (model[0] * n, model[1] * n, False)
        compare(real2, model, f"mul/{opnd}", env)
        real = real2
    return real, model


def compare(real, model, where, env):
    mk, exact, spec, CompositeMove, _ = env
    flat, kinds, _ = model
    moves = getattr(real, "moves", None)
    if moves is None:
        raise Mismatch(f"{where}/not-a-composite", f"result {type(real).__name__} has no elementary moves")
    if len(moves) != len(flat) or any(a is not b for a, b in zip(moves, flat)):
        got = [type(m).__name__ for m in moves]
        raise Mismatch(f"{where}/elements-differ", f"result holds {len(moves)} elements {got}, expected the operands' {len(flat)} elementary moves in order with multiplicity")
    ks = {"D" if k == "U" else k for k in kinds}
    want = spec[next(iter(ks))] if len(ks) == 1 and next(iter(ks)) in spec else CompositeMove
    if type(real) is not want:
        if want is CompositeMove:
            raise Mismatch(f"{where}/wrongly-specialised", f"result is {type(real).__name__} for element kinds {sorted(ks)}, expected plain CompositeMove")
        raise Mismatch(f"{where}/specialisation-lost", f"result is {type(real).__name__} for elements all of kind {kinds[0]}, expected {want.__name__}")


def task_moves(arg):
    env = _classes()
    k, kindset = arg["k"], arg["kinds"]
    counters = {"trees": 0, "nodes": 0, "nontrivial": 0}
    viol, samples = [], []
    outcomes = set()
    seen_sig = {}
    for shape in shapes(k)[arg.get("shape_lo", 0) : arg.get("shape_hi", None)]:
        nds = nodes(shape)
        stars = [None] + [(p, n, side) for p in nds for n in (1, 2, 3) for side in ("r",)]
        for kinds in itertools.product(kindset, repeat=k):
            for star in stars:
                counters["trees"] += 1
                counters["nodes"] += len(nds)
                expr = show(shape, kinds, star)
                try:
                    real, model = evaluate(shape, iter(kinds), star, (), env)
                    outcomes.add((type(real).__name__, len(model[0])))
                    if k > 1 or star:
                        counters["nontrivial"] += 1
                    if len(samples) < 2 and k >= 3 and star and len(set(kinds)) > 1:
                        samples.append({"expression": expr, "result": type(real).__name__, "elements": [type(m).__name__ for m in real.moves]})
                except Mismatch as m:
                    sig = f"C17/moves/{m.clause}"
                    seen_sig[sig] = seen_sig.get(sig, 0) + 1
                    if seen_sig[sig] <= 2:
                        viol.append({"signature": sig, "what": f"{expr}: {m.what}", "replay": {"check": PID, "func": "task_one", "arg": {"shape": js(shape), "kinds": list(kinds), "star": js(star)}}})
    counters["violating_trees"] = sum(seen_sig.values())
    return {"counters": counters, "violations": viol, "samples": samples, "sets": {"outcomes": list(outcomes)}}


def _tup(x):
    return tuple(_tup(v) for v in x) if isinstance(x, list) else x


def task_one(arg):
    env = _classes()
    shape, star = _tup(arg["shape"]), arg["star"]
    if star:
        star = (tuple(star[0]), star[1], star[2])
    try:
        evaluate(shape, iter(arg["kinds"]), star, (), env)
    except Mismatch as m:
        return {"violations": [{"signature": f"C17/moves/{m.clause}", "what": m.what}], "counters": {}}
    return {"violations": [], "counters": {}}


def invalid_and_calls(viol):
    """Invalid multipliers must raise; plain composites call each element once, in order."""
    env = _classes()
    mk, exact, spec, CompositeMove, Probe = env
    from quansino.operations.displacement import Ball, Box

    n = 0
    bad = [0, -1, -3, 1.5, 2.0, "2", None]
    targets = {
        "leaf-move": lambda: mk["D"](),
        "generic-leaf-move": lambda: mk["G"](),
        "composite-move": lambda: mk["D"]() + mk["D"](),
        "plain-composite-move": lambda: mk["D"]() + mk["C"](),
        "leaf-operation": lambda: Ball(0.1),
        "composite-operation": lambda: Ball(0.1) + Box(0.1),
    }
    for tname, make in targets.items():
        for b in bad:
            for side in ("x*n", "n*x"):
                n += 1
                x = make()
                try:
                    r = x * b if side == "x*n" else b * x
                except (TypeError, ValueError):
                    continue
                except Exception as e:  # noqa: BLE001
                    viol.append({"signature": f"C17/mul-invalid/{tname}/unexpected-exception:{type(e).__name__}", "what": f"{tname} {side} with n={b!r} raised {type(e).__name__}", "replay": {}})
                    continue
                viol.append({"signature": f"C17/mul-invalid/{tname}/accepted:{type(b).__name__}", "what": f"{tname} {side} with n={b!r} did not raise (gave {type(r).__name__} with {len(r)} elements)", "replay": {}})
    # calls of plain composites
    for k in (1, 2, 3, 4):
        for results in itertools.product((True, False), repeat=k):
            for build in ("sum", "mixed-nesting"):
                n += 1
                log = []
                probes = [Probe(r, log, i) for i, r in enumerate(results)]
                if k == 1:
                    comp = CompositeMove(probes)
                elif build == "sum":
                    comp = probes[0]
                    for p in probes[1:]:
                        comp = comp + p
                else:
                    comp = probes[-1]
                    for p in reversed(probes[:-1]):
                        comp = p + comp
                if type(comp) is not CompositeMove:
                    viol.append({"signature": "C17/call/probe-composite-not-plain", "what": f"sum of generic moves is {type(comp).__name__}", "replay": {}})
                    continue
                out = comp(None)
                if log != list(range(k)):
                    viol.append({"signature": "C17/call/elements-not-called-once-in-order", "what": f"call log {log} for {k} elements with results {results}", "replay": {}})
                if bool(out) != any(results):
                    viol.append({"signature": "C17/call/result-not-any", "what": f"composite returned {out!r} for element results {results}", "replay": {}})
    return n


def task_ops(arg):
    """Operation algebra: every tree over 4 leaf kinds; result is a CompositeOperation holding the
    operands' elementary operations in order with multiplicity."""
    from quansino.operations.composite import CompositeOperation
    from quansino.operations.core import BaseOperation
    from quansino.operations.displacement import Ball, Box, Translation

    class ProbeOp(BaseOperation):
        def calculate(self, context):
            return np.zeros((1, 3))

    mk = {"Ba": lambda: Ball(0.1), "Bo": lambda: Box(0.2), "Tr": lambda: Translation(), "Pr": lambda: ProbeOp()}
    k = arg["k"]
    counters = {"trees": 0, "nodes": 0, "nontrivial": 0}
    viol, seen = [], {}

    def ev(shape, it, star, path):
        if shape == "L":
            o = mk[next(it)]()
            real, flat, leaf = o, [o], True
        else:
            lr, lf, ll = ev(shape[0], it, star, path + (0,))
            rr, rf, rl = ev(shape[1], it, star, path + (1,))
            w = f"add/{'leaf' if ll else 'composite'}+{'leaf' if rl else 'composite'}"
            before = [list(getattr(o, "operations", [])) for o in (lr, rr)]
            try:
                real = lr + rr
            except Exception as e:  # noqa: BLE001
                raise Mismatch(f"{w}/exception:{type(e).__name__}", str(e)) from e
            flat, leaf = lf + rf, False
            chk(real, flat, w)
            for o, b in zip((lr, rr), before):
                now = list(getattr(o, "operations", []))
                if len(now) != len(b) or any(x is not y for x, y in zip(now, b)) or (hasattr(o, "operations") and real.operations is o.operations):
                    raise Mismatch(f"{w}/operand-modified-or-aliased", "an operand of + was changed by the addition (or shares its element list with the result)")
        if star and star[0] == path:
            w = f"mul/{'leaf' if leaf else 'composite'}"
            try:
                real = real * star[1]
            except Exception as e:  # noqa: BLE001
                raise Mismatch(f"{w}/exception:{type(e).__name__}", str(e)) from e
            flat, leaf = flat * star[1], False
            chk(real, flat, w)
        return real, flat, leaf

    def chk(real, flat, w):
        if type(real) is not CompositeOperation:
            raise Mismatch(f"{w}/not-a-composite-operation", f"result is {type(real).__name__}")
        ops = real.operations
        if len(ops) != len(flat) or any(a is not b for a, b in zip(ops, flat)):
            raise Mismatch(f"{w}/elements-differ", f"result holds {[type(o).__name__ for o in ops]}, expected {len(flat)} operations in order")

    for shape in shapes(k):
        nds = nodes(shape)
        stars = [None] + [(p, n) for p in nds for n in (1, 2, 3)]
        for kinds in itertools.product(list(mk), repeat=k):
            for star in stars:
                counters["trees"] += 1
                counters["nodes"] += len(nds)
                try:
                    ev(shape, iter(kinds), star, ())
                    counters["nontrivial"] += 1 if (k > 1 or star) else 0
                except Mismatch as m:
                    sig = f"C17/operations/{m.clause}"
                    seen[sig] = seen.get(sig, 0) + 1
                    if seen[sig] <= 2:
                        viol.append({"signature": sig, "what": f"{show(shape, kinds, star)}: {m.what}", "replay": {}})
    counters["violating_trees"] = sum(seen.values())
    return {"counters": counters, "violations": viol, "samples": [], "sets": {}}


def run(tier, seed):
    rep = Report("model_checking")
    acc = Acc()
    args = []
    five = ["D", "E", "C", "G", "H", "U"]
    for k in (1, 2, 3):
        args.append({"k": k, "kinds": five})
    k4 = five if tier == "thorough" else ["D", "E", "G", "U"]
    for i in range(len(shapes(4))):
        args.append({"k": 4, "kinds": k4, "shape_lo": i, "shape_hi": i + 1})
    for r in pmap(__name__, "task_moves", args):
        acc.add(r)
    ops = Acc()
    for r in pmap(__name__, "task_ops", [{"k": k} for k in ((1, 2, 3) if tier == "quick" else (1, 2, 3, 4))]):
        ops.add(r)
    viol = acc.violations + ops.violations
    ncalls = invalid_and_calls(viol)
    rep.violations = viol
    rep.coverage = {
        "states": acc.n("trees") + ops.n("trees"),
        "transitions": acc.n("nodes") + ops.n("nodes"),
        "traces_validated_against_impl": acc.n("trees") + ops.n("trees"),
        "move_trees": acc.n("trees"),
        "operation_trees": ops.n("trees"),
        "trees_with_an_operator": acc.n("nontrivial") + ops.n("nontrivial"),
        "violating_trees": acc.n("violating_trees") + ops.n("violating_trees"),
        "invalid_multiplier_and_call_cases": ncalls,
        "distinct_results": sorted(f"{a}x{b}" for a, b in acc.sets.get("outcomes", ())),
        "bound": f"move trees: <= 3 leaf nodes over 6 kinds (incl. a user subclass of DisplacementMove), 4 leaf nodes over {len(k4)} kinds; every parenthesisation; at most one '* n' (n in 1..3) on any node, operation trees <= {3 if tier == 'quick' else 4} leaf nodes over 4 kinds; plain-composite calls: every boolean vector up to 4 elements, left- and right-nested",
        "exhaustive": True,
        "samples": acc.samples[:3] or [{"note": "no sample"}],
    }
    rep.assumptions = ["states = expression trees (each evaluated bottom-up with every intermediate node compared with the model); transitions = operator applications"]
    return rep


def replay(data):
    res = task_one(data["arg"])
    return {"signatures": sorted({v["signature"] for v in res["violations"]})}
