#!/bin/bash
# tools/wave_process.sh <suffix> [NN ...]  - for worktrees /tmp/wt/cNN<suffix>: start the confirmations
# (background, 6 at a time) and run each change against the quick check of its own property.
# Results: /tmp/wt/wave_<suffix>_confirm.log, /tmp/wt/wave_<suffix>_detect.log
s=$1; shift
nums=${@:-01 02 03 04 05 06 07 08 09 10 11 12 13 14 15 16 17 18 19 20}
cd /tmp/wt
(for n in $nums; do for i in 1 2 3; do [ -f /tmp/wt/c$n$s/_out/mut$i.diff ] && echo "c$n$s $i"; done; done | xargs -P 6 -L 1 sh -c '/verif/tools/mutant.sh confirm /tmp/wt/$0/_out $1 $0$1 > /dev/null 2>&1'; echo done-confirm) > /tmp/wt/wave_${s}_confirm.log 2>&1 &
export QV_PROCS=${QV_PROCS:-8}
: > /tmp/wt/wave_${s}_detect.log
for n in $nums; do for i in 1 2 3; do
  d=/tmp/wt/c$n$s/_out/mut$i.diff; [ -f $d ] || continue
  out=$(timeout 1500 /verif/tools/mutant.sh detect $d d$n$s$i C$n 2>&1)
  if echo "$out" | grep -q "VIOLATION property=C$n"; then r=CAUGHT; elif echo "$out" | grep -q "HARNESS\|APPLY FAILED"; then r="HARNESS/APPLY: $(echo "$out" | grep -m1 'HARNESS\|APPLY' | cut -c1-200)"; else r=MISSED; fi
  echo "c$n$s mut$i $r $(echo "$out" | grep -m1 VIOLATION | sed 's/.*replays\///' | cut -c1-100)" | tee -a /tmp/wt/wave_${s}_detect.log
done; done
