#!/bin/bash
# tools/run_all.sh quick|thorough [seed] -> runs every claimed check, prints one line per check
tier=${1:-quick}; seed=${2:-0}
cd "$(dirname "$0")/.."
for c in $(/venv/bin/python -c "import json;print(' '.join(x['property_id'] for x in json.load(open('MANIFEST.json'))['checks']))"); do
  s=$(date +%s); out=$(VERIF_SEED=$seed bin/check $c $tier 2>&1); rc=$?; e=$(date +%s)
  echo "$c $tier seed=$seed rc=$rc $((e-s))s known=$(echo "$out" | grep -c '^KNOWN-FINDING') viol=$(echo "$out" | grep -c '^VIOLATION')"
  echo "$out" | grep -E "^VIOLATION|HARNESS" | head -5
done
