"""Check runner: parallel map, violations -> replays / known findings, evidence files."""

from __future__ import annotations

import importlib
import json
import multiprocessing as mp
import os
import re
import sys
import time
import traceback
import warnings
from pathlib import Path

from qv.core import HarnessError, js

ROOT = Path(__file__).resolve().parent.parent
EVIDENCE = Path(os.environ.get("QV_OUT_DIR", ROOT)) / "evidence"
REPLAYS = Path(os.environ.get("QV_OUT_DIR", ROOT)) / "replays"
FINDINGS = ROOT / "known_findings.json"


class Report:
    """What a check returns to the runner."""

    def __init__(self, level: str):
        self.level = level
        self.coverage: dict = {}
        self.assumptions: list[str] = []
        self.violations: list[dict] = []  # {signature, what, replay}
        self.observations: list[str] = []

    def violation(self, signature: str, what: str, replay: dict | None = None):
        self.violations.append({"signature": signature, "what": what, "replay": replay or {}})


class Acc:
    """Accumulator for results of parallel tasks: counters are summed, sets united, samples
    concatenated (bounded), violations collected."""

    def __init__(self):
        self.counters: dict[str, float] = {}
        self.sets: dict[str, set] = {}
        self.samples: list = []
        self.violations: list[dict] = []
        self.maxima: dict[str, float] = {}
        self.notes: list = []

    def add(self, res: dict):
        for k, v in res.get("counters", {}).items():
            self.counters[k] = self.counters.get(k, 0) + v
        for k, v in res.get("maxima", {}).items():
            self.maxima[k] = max(self.maxima.get(k, v), v)
        for k, v in res.get("sets", {}).items():
            self.sets.setdefault(k, set()).update(v)
        for s in res.get("samples", []):
            if len(self.samples) < 12:
                self.samples.append(s)
        self.violations.extend(res.get("violations", []))
        self.notes.extend(res.get("notes", []))

    def n(self, k):
        return int(self.counters.get(k, 0))


def _call(payload):
    modname, funcname, arg = payload
    warnings.simplefilter("ignore")
    try:
        mod = importlib.import_module(modname)
        return getattr(mod, funcname)(arg)
    except HarnessError as e:
        return {"harness_error": f"{funcname}({json.dumps(js(arg))[:300]}): {e}\n{traceback.format_exc()}"}
    except Exception as e:  # noqa: BLE001
        return {"harness_error": f"{funcname}({json.dumps(js(arg))[:300]}): {type(e).__name__}: {e}\n{traceback.format_exc()}"}


def _replay_call(payload):
    modname, rp = payload
    mod = importlib.import_module(modname)
    return json.dumps(js(mod.replay(rp)), sort_keys=True)


def _child(conn, fn, payload):
    """Body of a forked worker: one task, result through its own pipe, then exit."""
    try:
        res = fn(payload)
    except BaseException as e:  # noqa: BLE001
        res = {"harness_error": f"worker raised {type(e).__name__}: {e}\n{traceback.format_exc()}"}
    try:
        conn.send(res)
    finally:
        conn.close()
        os._exit(0)


def _forked(fn, payloads, procs):
    """Run ``fn(payload)`` for every payload, each in its OWN freshly forked process (at most
    ``procs`` at a time), yielding results as they complete.  No shared queues or pool threads:
    the parent is single-threaded when it forks, every child has a private pipe, and a child
    that dies without an answer is reported instead of being waited for."""
    from multiprocessing.connection import wait

    ctx = mp.get_context("fork")
    pending = list(payloads)
    running = {}
    try:
        while pending or running:
            while pending and len(running) < procs:
                payload = pending.pop(0)
                r, w = ctx.Pipe(duplex=False)
                sys.stdout.flush()
                sys.stderr.flush()
                pr = ctx.Process(target=_child, args=(w, fn, payload), daemon=True)
                pr.start()
                w.close()
                running[r] = pr
            for conn in wait(list(running)):
                pr = running.pop(conn)
                try:
                    res = conn.recv()
                except (EOFError, OSError):
                    res = {"harness_error": f"worker {pr.pid} exited without a result (exit code {pr.exitcode})"}
                conn.close()
                pr.join()
                yield res
    finally:
        for conn, pr in running.items():
            pr.terminate()
            pr.join()
            conn.close()


def fresh_replay(mod, rp) -> str:
    """Run ``mod.replay(rp)`` in a freshly forked child (same process state as a task worker)."""
    (res,) = list(_forked(_replay_call, [(mod.__name__, rp)], 1))
    if isinstance(res, dict) and "harness_error" in res:
        raise HarnessError(res["harness_error"])
    return res


def pmap(modname: str, funcname: str, args: list, procs: int | None = None, chunksize: int = 1):
    """Run ``modname.funcname(arg)`` for every arg, in worker processes; yields results.

    One task per forked worker: process-global state leaked by the code under test cannot carry
    over from one task to the next, so every task starts from the same process state."""
    procs = procs or int(os.environ.get("QV_PROCS", os.cpu_count() or 4))
    payloads = [(modname, funcname, a) for a in args]
    if procs <= 1 or not args:
        for p in payloads:
            r = _call(p)
            if "harness_error" in r:
                raise HarnessError(r["harness_error"])
            yield r
        return
    for r in _forked(_call, payloads, procs):
        if "harness_error" in r:
            raise HarnessError(r["harness_error"])
        yield r


def load_findings() -> dict:
    if FINDINGS.exists():
        return json.loads(FINDINGS.read_text())
    return {"findings": [], "fixed": []}


def _slug(s: str) -> str:
    return re.sub(r"[^A-Za-z0-9_.-]+", "-", s).strip("-")[:150]


def run_check(pid: str, tier: str) -> int:
    t0 = time.time()
    seed = int(os.environ.get("VERIF_SEED", "0") or 0)
    warnings.simplefilter("ignore")
    mod = importlib.import_module(f"qv.checks.{pid.lower()}")
    try:
        rep: Report = mod.run(tier, seed)
    except HarnessError as e:
        print(f"HARNESS-ERROR property={pid}: {e}", flush=True)
        return 2
    except Exception as e:  # noqa: BLE001 - an escaped exception is a defect of the harness, never a verdict
        print(f"HARNESS-ERROR property={pid}: {type(e).__name__}: {e}\n{traceback.format_exc()}", flush=True)
        return 2
    known = {f["signature"]: f for f in load_findings().get("findings", []) if f.get("property") == pid}
    by_sig: dict[str, list] = {}
    for v in rep.violations:
        by_sig.setdefault(v["signature"], []).append(v)
    new = 0
    for sig in sorted(by_sig):
        vs = by_sig[sig]
        if sig in known:
            print(f"KNOWN-FINDING: property={pid} {sig}: {known[sig].get('what', vs[0]['what'])} ({len(vs)} occurrences)")
            continue
        new += 1
        # a violation is only trusted if its replay is deterministic: execute it twice
        rp = vs[0].get("replay") or {}
        if hasattr(mod, "replay") and rp.get("func") and os.environ.get("QV_NO_REPLAY") != "1":
            try:
                a = fresh_replay(mod, rp)
                b = fresh_replay(mod, rp)
            except Exception as e:  # noqa: BLE001
                a, b = f"replay raised {type(e).__name__}: {e}", None
            if b is not None and a != b:
                print(f"HARNESS-ERROR property={pid}: replay of {sig} is not deterministic", flush=True)
                return 2
            vs[0]["replay"] = {**rp, "replay_reproduces": (sig in a) if b is not None else a}
        d = REPLAYS / pid
        d.mkdir(parents=True, exist_ok=True)
        path = d / f"{_slug(sig.split('/', 1)[-1])}.json"
        path.write_text(
            json.dumps(
                {"property": pid, "signature": sig, "what": vs[0]["what"], "occurrences": len(vs), "tier": tier, "seed": seed, "replay": js(vs[0]["replay"])},
                indent=1,
            )
        )
        print(f"  {sig}: {vs[0]['what']} ({len(vs)} occurrences)")
        print(f"VIOLATION property={pid} replay={path}", flush=True)
    for o in rep.observations:
        print(f"note: {o}")
    cov = dict(rep.coverage)
    cov.setdefault("samples", [])
    ev = {
        "property_id": pid,
        "tier": tier,
        "seed": seed,
        "level": rep.level,
        "coverage": js(cov),
        "assumptions": rep.assumptions,
        "wall_s": round(time.time() - t0, 3),
        "violations": new,
        "known_findings_reproduced": sorted(s for s in by_sig if s in known),
    }
    EVIDENCE.mkdir(parents=True, exist_ok=True)
    (EVIDENCE / f"{pid}.json").write_text(json.dumps(ev, indent=1))
    summary = {k: v for k, v in cov.items() if k != "samples" and not isinstance(v, (list, dict))}
    print(f"{pid} {tier} seed={seed}: {json.dumps(js(summary))} wall={ev['wall_s']}s violations={new}")
    return 1 if new else 0


def run_replay(path: str) -> int:
    data = json.loads(Path(path).read_text())
    pid = data["property"]
    mod = importlib.import_module(f"qv.checks.{pid.lower()}")
    if not hasattr(mod, "replay"):
        print(f"{pid} has no replay entry point")
        return 2
    outs = []
    for _ in range(2):
        outs.append(fresh_replay(mod, data["replay"]))
    if outs[0] != outs[1]:
        print("HARNESS-ERROR: replay is not deterministic")
        return 2
    res = json.loads(outs[0])
    sigs = res.get("signatures", [])
    print(json.dumps(res, indent=1)[:4000])
    if data["signature"] in sigs:
        print(f"REPRODUCED {data['signature']}")
        return 1
    print(f"NOT-REPRODUCED {data['signature']}")
    return 0


def main(argv=None) -> int:
    argv = list(sys.argv[1:] if argv is None else argv)
    if not argv:
        print("usage: python -m qv <Cxx> quick|thorough | replay <file>")
        return 2
    if argv[0] == "replay":
        return run_replay(argv[1])
    pid = argv[0].upper()
    tier = argv[1] if len(argv) > 1 else os.environ.get("VERIF_TIER", "quick")
    return run_check(pid, tier)
