#!/venv/bin/python
"""tools/keep_mutant.py <outdir> <i> <confirm-name> <seed-id> <detected-by: "C03,C04"> [note]"""
import json, shutil, sys, os, re
out, i, cname, sid, det = sys.argv[1:6]
note = sys.argv[6] if len(sys.argv) > 6 else ""
d = f"/verif/seeded/{sid}"
os.makedirs(d, exist_ok=True)
shutil.copy(f"{out}/mut{i}.diff", f"{d}/patch.diff")
shutil.copy(f"{out}/demo{i}.py", f"{d}/demo.py")
meta = json.load(open(f"{out}/meta{i}.json"))
res = open(f"/tmp/wt/confirm-{cname}.result").read()
tests = re.findall(r"(\d+ (?:failed, )?\d* ?passed[^\n]*)", res)
meta["confirmed_by_me"] = {
    "procedure": "scratch worktree of /repo HEAD: demo on clean tree, git apply patch, demo on mutated tree, full pytest suite on mutated tree (tools/mutant.sh confirm)",
    "demo_exit_clean": int(re.search(r"clean_exit=(\d+)", res).group(1)),
    "demo_exit_mutated": int(re.search(r"mutated_exit=(\d+)", res).group(1)),
    "tests_on_mutated_tree": tests[-1] if tests else res[-200:],
}
meta["breaks_property"] = meta.get("property")
meta["detected_by_quick_checks"] = [x for x in det.split(",") if x]
if note:
    meta["note"] = note
json.dump(meta, open(f"{d}/meta.json", "w"), indent=1)
print(sid, meta["confirmed_by_me"], meta["detected_by_quick_checks"])
